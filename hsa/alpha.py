"""Behaviour-preserving alpha-renaming of local variables (used as a whole-tree twin in the thorough tier)."""
import ast

from . import canon


def rename_locals(source, suffix="_r"):
    """-> (new source, number of renamed locals).  Every local bound in a function's own scope is renamed,
    except names that a nested scope rebinds (parameters of nested functions / lambdas, comprehension targets)."""
    tree = ast.parse(source)
    count = 0

    def visit(body):
        nonlocal count
        for n in body:
            if isinstance(n, ast.ClassDef):
                visit(n.body)
            elif isinstance(n, (ast.FunctionDef, ast.AsyncFunctionDef)):
                names = {b[0] for b in canon._bindings(n)}
                # also locals of nested functions are handled when we recurse; here only this scope
                names = {x for x in names if not canon._rebinding_scopes(n, x)}
                used = {x.id for x in ast.walk(n) if isinstance(x, ast.Name)} | canon._params(n)
                names = {x for x in names if x + suffix not in used}
                for x in ast.walk(n):
                    if isinstance(x, ast.Name) and x.id in names:
                        x.id = x.id + suffix
                count += len(names)
                for sub in canon._direct_nested(n):
                    visit([sub])
    visit(tree.body)
    return ast.unparse(tree) + "\n", count


def rename_all(rewritten):
    """edit hook for whole-tree twins: {relpath: source} in place"""
    total = 0
    for rel in list(rewritten):
        if rel.endswith(".py"):
            rewritten[rel], n = rename_locals(rewritten[rel])
            total += n
    if total < 500:
        raise RuntimeError("alpha twin renamed only %d locals" % total)
