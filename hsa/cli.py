"""Command line: python -m hsa.cli <property> [quick|thorough] | --explain <path>

Exit codes: 0 all obligations held (known findings printed), 1 at least one
VIOLATION, 2 ANALYSIS-ERROR (vanished anchor, unknown shape, lost sensitivity).
"""
import ast
import importlib
import json
import os
import sys
import time
import traceback
from concurrent.futures import ProcessPoolExecutor

from . import report
from .repo import AnalysisError, Repo, repo_root
from .variants import SkipVariant, make_scratch, drop_scratch


def load_prop(pid):
    try:
        return importlib.import_module("hsa.props." + pid.lower())
    except ModuleNotFoundError as e:
        if e.name == "hsa.props." + pid.lower():
            raise AnalysisError("no checker for property %s" % pid)
        raise


def run_rules(mod, repo, only_rules=None):
    """-> (obligations, per-rule summary, errors)"""
    obs, summary, errors = [], [], []
    for spec in mod.rules():
        if only_rules and spec.id not in only_rules:
            continue
        t0 = time.time()
        try:
            got = list(spec.func(repo))
        except AnalysisError as e:
            errors.append((spec.id, e.anchor or "", str(e)))
            summary.append({"rule": spec.id, "title": spec.title,
                            "error": str(e)})
            continue
        except RecursionError as e:  # pragma: no cover
            errors.append((spec.id, "", "recursion: %s" % e))
            continue
        except Exception as e:
            tb = traceback.format_exc(limit=6)
            errors.append((spec.id, "", "internal error: %r\n%s" % (e, tb)))
            summary.append({"rule": spec.id, "title": spec.title,
                            "error": repr(e)})
            continue
        for o in got:
            if not o.rule:
                o.rule = spec.id
        n = len(got)
        if n < spec.floor:
            errors.append((spec.id, "",
                           "instance floor: found %d obligations, expected at least %d "
                           "(the rule no longer matches what was confirmed by reading)"
                           % (n, spec.floor)))
        obs.extend(got)
        summary.append({"rule": spec.id, "title": spec.title,
                        "decides": spec.decides,
                        "obligations": n, "floor": spec.floor,
                        "discharged": sum(1 for o in got if o.ok),
                        "violated": sum(1 for o in got if not o.ok),
                        "wall_s": round(time.time() - t0, 3)})
    return obs, summary, errors


def _all_variants(mod):
    """the property's own variants plus the generic whole-tree twins"""
    from .variants import Variant
    from .alpha import rename_all
    vs = list(mod.variants()) if hasattr(mod, "variants") else []
    vs.append(Variant("twin: every local variable of every function alpha-renamed (whole tree)", None, rename_all,
                      None, twin=True))
    return vs


def _seed_worker(args):
    """apply a kept seeded patch (/verif/seeded/<id>/patch.diff) to a scratch copy and run the property's rules"""
    import re
    import shutil
    import subprocess
    pid, root, sid = args[:3]
    kind = args[3] if len(args) > 3 else "seed"       # "seed": must be reported; "refactor": must stay silent
    os.environ["HSA_REPO"] = root
    mod = load_prop(pid)
    patch = os.path.join(str(report.VERIF), "seeded" if kind == "seed" else "refactors", sid, "patch.diff")
    scratch = None
    try:
        text = open(patch).read()
        touched = sorted(set(re.findall(r"^\+\+\+ b/(\S+)", text, re.M)) | set(re.findall(r"^--- a/(\S+)", text, re.M)))
        rewritten = {}
        for rel in touched:
            pth = os.path.join(root, rel)
            rewritten[rel] = open(pth).read() if os.path.exists(pth) else ""
        scratch = make_scratch(root, rewritten)
        r = subprocess.run(["git", "apply", "-p1", patch], cwd=str(scratch), capture_output=True, text=True)
        if r.returncode != 0:
            return {"variant": kind + " " + sid, "twin": kind != "seed", "status": "skipped",
                    "why": "patch does not apply to the current tree: " + r.stderr.strip()[:120], "expect": [pid]}
        repo = Repo(scratch)
        obs, _summary, errors = run_rules(mod, repo, None)
        keys = sorted({(o.rule, o.key) for o in obs if not o.ok})
        res = {"variant": kind + " " + sid, "twin": kind != "seed", "status": "ran", "fired": sorted({k[0] for k in keys}),
               "keys": keys, "errors": [list(e) for e in errors], "expect": ["*"] if kind == "seed" else None}
        if kind != "seed":
            try:
                meta = json.load(open(os.path.join(os.path.dirname(patch), "meta.json")))
            except (OSError, ValueError):
                meta = {}
            # a refactoring that replaces the algorithm itself (recursion -> explicit stack, a generator helper): the
            # documented answer is ANALYSIS-ERROR `shape unknown` (exit 2), never a VIOLATION
            if meta.get("shape_unknown_expected") and all("shape unknown" in str(e[2]) for e in errors):
                res["errors_expected"] = res["errors"]
                res["errors"] = []
        return res
    except Exception as e:
        return {"variant": kind + " " + sid, "twin": kind != "seed", "status": "crashed", "why": repr(e), "expect": [pid]}
    finally:
        if scratch is not None:
            drop_scratch(scratch)


def _seeds_for(pid):
    import glob
    out = []
    for mp in sorted(glob.glob(os.path.join(str(report.VERIF), "seeded", "*", "meta.json"))):
        try:
            m = json.load(open(mp))
        except ValueError:
            continue
        if pid in m.get("detected_by", []) or pid in m.get("ever_detected_by", []):
            out.append(m["seed"])
    return out


def _refactors_for(pid):
    """kept behaviour-preserving refactorings (refactors/<id>) of the code of this property, and every one that ever
    made this property's check answer non-zero: replayed as twins (must stay silent)"""
    import glob
    out = []
    for mp in sorted(glob.glob(os.path.join(str(report.VERIF), "refactors", "*", "meta.json"))):
        try:
            m = json.load(open(mp))
        except ValueError:
            continue
        fp = m.get("first_pass", {})
        if m.get("property") == pid or pid in fp.get("violation_in", []) + fp.get("analysis_error_in", []):
            out.append(m["refactor"])
    return out


def _variant_worker(args):
    pid, root, idx = args
    os.environ["HSA_REPO"] = root
    mod = load_prop(pid)
    v = _all_variants(mod)[idx]
    scratch = None
    try:
        if v.relpath is None:
            # whole-tree reformat twin
            rewritten = {}
            from pathlib import Path
            for p in [Path(root) / "hephaestus.py"] + \
                    sorted((Path(root) / "src").rglob("*.py")):
                rel = str(p.relative_to(root))
                rewritten[rel] = ast.unparse(ast.parse(p.read_text())) + "\n"
            if v.edit:
                v.edit(rewritten)
        elif v.relpath.endswith(".py"):
            text = open(os.path.join(root, v.relpath)).read()
            tree = ast.parse(text)
            v.edit(tree)
            ast.fix_missing_locations(tree)
            new = ast.unparse(tree) + "\n"
            compile(new, v.relpath, "exec")
            rewritten = {v.relpath: new}
        else:
            p = os.path.join(root, v.relpath)
            text = open(p).read() if os.path.exists(p) else ""
            rewritten = {v.relpath: v.edit(text)}
        scratch = make_scratch(root, rewritten)
        repo = Repo(scratch)
        only = v.expect if (v.expect and not v.twin) else None
        obs, _summary, errors = run_rules(mod, repo, None)
        fired = sorted({o.rule for o in obs if not o.ok})
        keys = sorted({(o.rule, o.key) for o in obs if not o.ok})
        return {"variant": v.name, "twin": v.twin, "status": "ran",
                "fired": fired, "keys": keys,
                "errors": [list(e) for e in errors],
                "expect": sorted(v.expect)}
    except SkipVariant as e:
        return {"variant": v.name, "twin": v.twin, "status": "skipped",
                "why": str(e), "expect": sorted(v.expect)}
    except AnalysisError as e:
        return {"variant": v.name, "twin": v.twin, "status": "analysis-error",
                "why": str(e), "expect": sorted(v.expect)}
    except Exception as e:
        return {"variant": v.name, "twin": v.twin, "status": "crashed",
                "why": "%r %s" % (e, traceback.format_exc(limit=4)),
                "expect": sorted(v.expect)}
    finally:
        if scratch is not None:
            drop_scratch(scratch)


def run_variants(pid, mod, root, baseline_keys, seed):
    vs = _all_variants(mod)
    if not vs:
        return [], []
    order = list(range(len(vs)))
    results = []
    seeds = _seeds_for(pid)
    refs = _refactors_for(pid)
    with ProcessPoolExecutor(max_workers=min(16, len(vs) + len(seeds) + len(refs))) as ex:
        for r in ex.map(_variant_worker, [(pid, str(root), i) for i in order]):
            results.append(r)
        for r in ex.map(_seed_worker, [(pid, str(root), sid) for sid in seeds]):
            results.append(r)
        for r in ex.map(_seed_worker, [(pid, str(root), rid, "refactor") for rid in refs]):
            results.append(r)
    problems = []
    for r in results:
        if r["status"] == "skipped":
            continue
        if r["status"] != "ran":
            problems.append("variant %s: %s %s" % (r["variant"], r["status"],
                                                   r.get("why", "")))
            continue
        new_keys = [k for k in r["keys"] if tuple(k) not in baseline_keys]
        r["new_violations"] = ["%s %s" % tuple(k) for k in new_keys]
        new_rules = {k[0] for k in new_keys}
        if r["twin"]:
            if new_keys or r["errors"]:
                problems.append("twin %s is not silent: %s %s" % (
                    r["variant"], r["new_violations"], r["errors"]))
        else:
            if r["expect"] == ["*"]:
                if not new_keys:
                    problems.append("kept seeded change %s is no longer detected (sensitivity lost)" % r["variant"])
            elif not (new_rules & set(r["expect"])):
                problems.append(
                    "variant %s not detected (expected one of %s, new violations: %s, errors: %s)"
                    % (r["variant"], r["expect"], r["new_violations"],
                       [e[:2] for e in r["errors"]]))
        r.pop("keys", None)
    return results, problems


def main(argv=None):
    argv = list(sys.argv[1:] if argv is None else argv)
    if not argv:
        print("usage: check <property> [quick|thorough] | check <property> --explain <path>")
        return 2
    pid = argv[0].upper()
    explain = None
    tier = os.environ.get("VERIF_TIER", "quick")
    rest = argv[1:]
    if "--explain" in rest:
        i = rest.index("--explain")
        explain = rest[i + 1]
    elif rest:
        tier = rest[0]
    if tier not in ("quick", "thorough"):
        print("ANALYSIS-ERROR property=%s unknown tier %r" % (pid, tier))
        return 2
    try:
        seed = int(os.environ.get("VERIF_SEED", "0"))
    except ValueError:
        seed = 0
    t0 = time.time()
    try:
        mod = load_prop(pid)
        root = repo_root()
        repo = Repo(root)
        only = None
        if explain:
            ex = json.loads(open(explain).read())
            only = {ex["rule"]}
        obs, summary, errors = run_rules(mod, repo, only)
    except AnalysisError as e:
        print("ANALYSIS-ERROR property=%s rule=%s anchor=%s %s" % (
            pid, e.rule or "-", e.anchor or "-", e))
        return 2
    except Exception as e:
        print("ANALYSIS-ERROR property=%s internal error %r" % (pid, e))
        traceback.print_exc()
        return 2

    if explain:
        for o in obs:
            if o.key == ex["construct"]:
                print(json.dumps(o.as_json(), indent=1, default=str))
        return 0

    known = report.load_known()
    violations, known_hits = [], []
    for o in obs:
        if o.ok:
            continue
        k = report.match_known(pid, o, known)
        if k:
            known_hits.append((o, k))
        else:
            violations.append(o)

    print("property %s (%s) tier=%s repo=%s" % (pid, mod.TITLE, tier, root))
    print("  parsed %d modules, %d functions, %d classes" % (
        len(repo.modules), len(repo.functions), len(repo.classes)))
    for s in summary:
        if "error" in s:
            print("  rule %-8s ERROR %s" % (s["rule"], s["error"]))
        else:
            print("  rule %-8s %-58s obligations=%d (floor %d) discharged=%d violated=%d" % (
                s["rule"], s["title"][:58], s["obligations"], s["floor"],
                s["discharged"], s["violated"]))

    variant_results, variant_problems = [], []
    if tier == "thorough" and not errors:
        baseline_keys = {(o.rule, o.key) for o in obs if not o.ok}
        try:
            variant_results, variant_problems = run_variants(
                pid, mod, root, baseline_keys, seed)
        except Exception as e:
            variant_problems = ["variant matrix crashed: %r" % e]
        nran = sum(1 for r in variant_results if r["status"] == "ran")
        print("  variant matrix: %d variants, %d ran, %d skipped, %d problems" % (
            len(variant_results), nran,
            sum(1 for r in variant_results if r["status"] == "skipped"),
            len(variant_problems)))

    for o, k in known_hits:
        print("KNOWN-FINDING: property=%s %s [%s %s @ %s]" % (
            pid, k.get("what", o.msg), o.rule, o.key, o.where))
    n = 0
    for o in violations:
        n += 1
        p = report.write_violation(pid, n, o, root)
        print("VIOLATION property=%s replay=%s" % (pid, p))
        print("  rule %s  %s  %s" % (o.rule, o.where, o.key))
        for line in (o.msg or "").splitlines():
            print("  " + line)
    for rid, anchor, msg in errors:
        print("ANALYSIS-ERROR property=%s rule=%s anchor=%s %s" % (
            pid, rid, anchor or "-", msg))
    for p in variant_problems:
        print("ANALYSIS-ERROR property=%s rule=variant-matrix %s" % (pid, p))

    # evidence
    import random
    rnd = random.Random(seed)
    ok_obs = [o for o in obs]
    sample = ok_obs if len(ok_obs) <= 12 else rnd.sample(ok_obs, 12)
    distinct = len({(o.rule, o.key) for o in obs})
    cov = {
        "explanation": (mod.DECIDES + "  NOT DECIDED: " + mod.NOT_DECIDED),
        "obligations": len(obs),
        "discharged": sum(1 for o in obs if o.ok),
        "known_findings": len(known_hits),
        "evaluations": max(len(obs), 1),
        "distinct_nontrivial": distinct,
        "rule": "one evaluation = one rule instance (construct) extracted from the current source of /repo; distinct = distinct (rule, construct-key) pairs; every instance is non-trivial in that it is a concrete source construct the rule was evaluated on",
        "rules": summary,
        "samples": [o.as_json() for o in sample],
        "files_parsed": len(repo.modules),
        "functions_indexed": len(repo.functions),
        "classes_indexed": len(repo.classes),
        "source_digests": repo.digests(),
        "analysis_errors": [list(e) for e in errors] + variant_problems,
        "exhaustive": False,
    }
    if tier == "thorough":
        cov["variants"] = variant_results
    report.write_evidence(pid, tier, seed, cov, time.time() - t0,
                          len(violations))
    if violations:
        return 1
    if errors or variant_problems:
        return 2
    print("OK property=%s obligations=%d discharged=%d known-findings=%d wall=%.2fs" % (
        pid, len(obs), sum(1 for o in obs if o.ok), len(known_hits),
        time.time() - t0))
    return 0


if __name__ == "__main__":
    try:
        rc = main()
    except Exception as e:  # last resort: never exit 1 on a traceback
        print("ANALYSIS-ERROR internal error %r" % (e,))
        traceback.print_exc()
        rc = 2
    sys.exit(rc)
