"""Effect summaries: which objects a function may write to (A4 of DESIGN).

Direct effects: attribute stores, subscript stores, `del`, augmented stores and calls of
mutating methods, each with the *root* name of its access path classified flow-sensitively:

  fresh        bound to a constructor call, list()/dict()/copy()/sorted()/..., a literal or a
               comprehension (a new container/object; its *fields* may alias older objects)
  deepfresh    bound to deepcopy(...) (everything reachable from it is new)
  self         the receiver of the method
  param:<p>    reachable from parameter p
  global:<g>   module-level name
  closure:<n>  free variable of a nested function
  unknown:<w>  anything else (call results that may alias arguments, ...)

Interprocedural: summaries "callee may mutate (what is reachable from) its parameter p / its
receiver / global g" are pushed to call sites until a fixpoint.
"""
import ast

from .repo import AnalysisError, FunctionInfo, ClassInfo, iter_own_nodes
from .astutil import src, call_name, attr_chain, ancestors
from .cfg import cfg_of

MUTATORS = {"append", "extend", "insert", "pop", "remove", "clear", "update", "add", "discard",
            "setdefault", "sort", "reverse", "popitem", "appendleft", "popleft",
            "intersection_update", "difference_update", "symmetric_difference_update"}
FRESH_CALLS = {"list", "dict", "set", "tuple", "sorted", "copy", "OrderedDict", "defaultdict",
               "frozenset", "reversed", "enumerate", "zip", "map", "filter", "range", "str",
               "int", "len", "bool", "float", "format", "join", "namedtuple", "Counter", "deque"}
DEEP_FRESH_CALLS = {"deepcopy"}


class Effect:
    __slots__ = ("fn", "kind", "node", "root", "tags", "path", "via", "attr")

    def __init__(self, fn, kind, node, root, tags, path, via=(), attr=None):
        self.fn = fn          # FunctionInfo where the effect is observed
        self.kind = kind      # attr-store | sub-store | del | mutcall | aug-store
        self.node = node      # ast node (statement or call)
        self.root = root      # root name (str) or None
        self.tags = frozenset(tags)
        self.path = tuple(path)
        self.via = tuple(via)  # chain of callee qualnames for derived effects
        self.attr = attr      # last attribute written / method called

    @property
    def where(self):
        return "%s:%d" % (self.fn.module.relpath, getattr(self.node, "lineno", 0))

    def text(self):
        s = " ".join(src(self.node).split())
        return s[:140]

    def key(self):
        return "%s:%s:%s" % (self.fn.qualname, self.kind, self.text()[:90])

    def describe(self):
        v = (" via " + " -> ".join(self.via)) if self.via else ""
        return "%s %s `%s` root=%s tags=%s%s" % (self.where, self.kind, self.text(), self.root,
                                                 sorted(self.tags), v)


class Effects:
    def __init__(self, repo, fresh_returning=(), pure_calls=(), extra_mutators=()):
        self.repo = repo
        self.fresh_returning = set(fresh_returning)   # method/function names whose result is a new object
        self.pure_calls = set(pure_calls)             # names assumed not to mutate anything
        self.mutators = MUTATORS | set(extra_mutators)
        self._local = {}
        self._classify_memo = {}
        self._ret_fresh = {}
        self.self_class = None   # analyse inherited methods as if `self` were an instance of this class
        self.unresolved = 0
        self.resolved = 0

    # -- classification of expressions -----------------------------------------
    def classify(self, fi, expr, at=None, depth=0, seen=None):
        """Set of tags for the object(s) `expr` may denote in function fi."""
        seen = seen if seen is not None else set()
        if depth > 12:
            return {"unknown:depth"}
        if isinstance(expr, tuple) and expr and expr[0] == "unpack":
            return self._elem(self.classify(fi, expr[1], at, depth + 1, seen))
        if isinstance(expr, ast.Name):
            return self._classify_name(fi, expr, at or expr, depth, seen)
        if isinstance(expr, ast.Constant):
            return {"fresh"}
        if isinstance(expr, (ast.List, ast.Dict, ast.Set, ast.Tuple, ast.ListComp, ast.DictComp,
                             ast.SetComp, ast.GeneratorExp, ast.JoinedStr, ast.BinOp, ast.Compare,
                             ast.UnaryOp, ast.Lambda)):
            if isinstance(expr, ast.BinOp):
                return self.classify(fi, expr.left, at, depth + 1, seen) | \
                    self.classify(fi, expr.right, at, depth + 1, seen) \
                    if not isinstance(expr.op, (ast.Add, ast.Mult, ast.Sub, ast.Mod)) else {"fresh"}
            return {"fresh"}
        if isinstance(expr, ast.Attribute):
            base = self.classify(fi, expr.value, at, depth + 1, seen)
            if base <= {"fresh"} and self._ctor_fresh_field(fi, expr, at):
                return {"deepfresh"}
            return self._reach(base)
        if isinstance(expr, ast.Subscript):
            if isinstance(expr.slice, ast.Slice):
                return {"fresh"}    # x[a:b] builds a new list (its elements alias the old ones)
            return self._reach(self.classify(fi, expr.value, at, depth + 1, seen))
        if isinstance(expr, ast.Starred):
            return self.classify(fi, expr.value, at, depth + 1, seen)
        if isinstance(expr, ast.IfExp):
            return self.classify(fi, expr.body, at, depth + 1, seen) | \
                self.classify(fi, expr.orelse, at, depth + 1, seen)
        if isinstance(expr, ast.BoolOp):
            out = set()
            for v in expr.values:
                out |= self.classify(fi, v, at, depth + 1, seen)
            return out
        if isinstance(expr, ast.NamedExpr):
            return self.classify(fi, expr.value, at, depth + 1, seen)
        if isinstance(expr, ast.Call):
            return self._classify_call(fi, expr, at, depth, seen)
        return {"unknown:%s" % type(expr).__name__}

    def _ctor_fresh_field(self, fi, expr, at):
        """`v.a` where every definition of local v is a constructor call C(...) and C.__init__ binds `self.a` only to
        deep copies: the field of the object under construction is itself new (ParameterizedType.t_constructor)."""
        v = expr.value
        if not isinstance(v, ast.Name) or not _inside(v, fi.node):
            return False
        try:
            defs = cfg_of(fi.node).defs_reaching(v.id, v)
        except AnalysisError:
            return False
        if not defs:
            return False
        for _d, val, k in defs:
            if k != "assign" or not isinstance(val, ast.Call) or not hasattr(val, "_module"):
                return False
            tgt = self.repo.resolve_name_expr(val.func, val._module, fi)
            if not isinstance(tgt, ClassInfo):
                return False
            init = tgt.lookup("__init__")
            if init is None:
                return False
            stores = [n for n in iter_own_nodes(init.node) if isinstance(n, ast.Assign) and any(
                isinstance(t, ast.Attribute) and isinstance(t.value, ast.Name) and t.value.id == "self" and
                t.attr == expr.attr for t in n.targets)]
            if not stores:
                return False
            for st in stores:
                if not (isinstance(st.value, ast.Call) and call_name(st.value) in DEEP_FRESH_CALLS):
                    return False
        return True

    def _reach(self, tags):
        out = set()
        for t in tags:
            if t == "fresh":
                out.add("freshfield")
            else:
                out.add(t)
        return out

    def _elem(self, tags):
        return self._reach(tags)

    def _classify_name(self, fi, name, at, depth, seen):
        nid = name.id
        if nid in ("self", "cls") and fi.cls is not None and fi.params and fi.params[0] == nid \
                and fi.outer is None:
            return {"self"}
        # comprehension / lambda binders
        b = _binder(name)
        if b is not None:
            kind, e = b
            if kind == "comp":
                return self._elem_of_expr(fi, e, at, depth, seen)
            return {"unknown:lambda-param"}
        fn = fi.node
        if not _inside(name, fn):
            at = at if _inside(at, fn) else None
        anchor = name if _inside(name, fn) else at
        defs = []
        if anchor is not None:
            try:
                defs = cfg_of(fn).defs_reaching(nid, anchor)
            except AnalysisError:
                defs = []
        if not defs:
            # free variable
            if fi.outer is not None and (nid in fi.outer.params or _assigned_in(fi.outer.node, nid)):
                if nid in ("self",) and fi.outer.cls is not None:
                    return {"self"}
                return {"closure:" + nid}
            m = fi.module
            if nid in m.globals or nid in m.imports or nid in m.classes or nid in m.functions:
                return {"global:" + nid}
            return {"unknown:free:" + nid}
        out = set()
        for d, v, k in defs:
            key = (fi.qualname, nid, d)
            if key in seen:
                continue
            seen.add(key)
            st = cfg_of(fn).stmt(d)
            if k == "param":
                out.add("param:" + nid)
            elif k == "for" or k == "for-unpack":
                out |= self._elem_of_expr(fi, v[1] if isinstance(v, tuple) else v, st, depth, seen)
            elif k == "with":
                out |= self.classify(fi, v, st, depth + 1, seen)
            elif k in ("except", "import", "def"):
                out.add("fresh")
            elif k == "augassign":
                out.add("fresh")
            elif v is None:
                out.add("unknown:opaque")
            else:
                out |= self.classify(fi, v, st, depth + 1, seen)
        return out

    def _elem_of_expr(self, fi, e, at, depth, seen):
        """tags of the elements obtained by iterating expression e"""
        if isinstance(e, ast.Call):
            n = call_name(e)
            if n in ("enumerate", "zip", "reversed", "sorted", "list", "tuple", "set", "iter", "filter"):
                out = set()
                for a in e.args:
                    if not isinstance(a, ast.Lambda):
                        out |= self._elem_of_expr(fi, a, at, depth + 1, seen)
                return out or {"fresh"}
            if n in ("range",):
                return {"fresh"}
            if n in ("items", "values", "keys") and isinstance(e.func, ast.Attribute):
                return self._reach(self.classify(fi, e.func.value, at, depth + 1, seen))
            if n in DEEP_FRESH_CALLS:
                return {"deepfresh"}
        if isinstance(e, (ast.List, ast.Tuple, ast.Set)):
            out = set()
            for x in e.elts:
                out |= self.classify(fi, x, at, depth + 1, seen)
            return out or {"fresh"}
        if isinstance(e, (ast.ListComp, ast.SetComp, ast.GeneratorExp)):
            return self.classify(fi, e.elt, e.elt, depth + 1, seen)
        if isinstance(e, ast.Name):
            # look through a local bound to a literal / comprehension
            try:
                defs = cfg_of(fi.node).defs_reaching(e.id, at if _inside(at, fi.node) else e)
            except AnalysisError:
                defs = []
            if defs and all(isinstance(v, (ast.List, ast.ListComp, ast.Tuple, ast.Set, ast.SetComp))
                            for _d, v, _k in defs):
                out = set()
                for d, v, _k in defs:
                    out |= self._elem_of_expr(fi, v, cfg_of(fi.node).stmt(d), depth + 1, seen)
                # plus anything appended later is not tracked: be conservative
                out.add("freshfield")
                return out
        return self._reach(self.classify(fi, e, at, depth + 1, seen))

    def _classify_call(self, fi, call, at, depth, seen):
        n = call_name(call)
        if n in DEEP_FRESH_CALLS:
            return {"deepfresh"}
        tgt = self.repo.resolve_name_expr(call.func, call._module, fi) \
            if hasattr(call, "_module") else None
        if isinstance(tgt, ClassInfo):
            return {"fresh"}
        if n in FRESH_CALLS and not isinstance(tgt, FunctionInfo):
            return {"fresh"}
        if n in self.fresh_returning:
            return {"fresh"}
        if isinstance(tgt, FunctionInfo) and self.returns_fresh(tgt):
            return {"fresh"}
        if tgt is None and isinstance(call.func, ast.Attribute) and n not in self.mutators:
            try:
                cands, _how = self.repo.resolve_call(call, fi)
            except Exception:
                cands = []
            if cands and all(self.returns_fresh(g) for g in cands):
                return {"fresh"}
        if n == "get" and isinstance(call.func, ast.Attribute):
            out = self._reach(self.classify(fi, call.func.value, at, depth + 1, seen))
            for a in call.args[1:]:
                out |= self.classify(fi, a, at, depth + 1, seen)
            return out
        # unknown call: may return something reachable from receiver or arguments
        out = {"unknown:call:%s" % n}
        if isinstance(call.func, ast.Attribute):
            out |= self._reach(self.classify(fi, call.func.value, at, depth + 1, seen))
        for a in call.args:
            if not isinstance(a, (ast.Constant, ast.Lambda)):
                out |= self._reach(self.classify(fi, a, at, depth + 1, seen))
        return out

    def returns_fresh(self, f):
        """All return expressions of f are fresh objects (one level)."""
        if f.qualname in self._ret_fresh:
            return self._ret_fresh[f.qualname]
        self._ret_fresh[f.qualname] = False
        rets = [n for n in iter_own_nodes(f.node) if isinstance(n, ast.Return) and n.value is not None]
        ok = bool(rets)
        for r in rets:
            tags = self.classify(f, r.value, r)
            if not tags <= {"fresh", "deepfresh"}:
                ok = False
                break
        self._ret_fresh[f.qualname] = ok
        return ok

    # -- direct effects ------------------------------------------------------------
    def local(self, fi):
        if fi.qualname in self._local:
            return self._local[fi.qualname]
        out = []
        fn = fi.node

        def add(kind, node, target_expr, attr=None):
            root, path = attr_chain(target_expr)
            tags = self.classify(fi, target_expr, node)
            out.append(Effect(fi, kind, node, root, tags, path, attr=attr))

        for n in iter_own_nodes(fn):
            if isinstance(n, ast.Assign):
                for t in n.targets:
                    self._store_targets(t, n, add)
            elif isinstance(n, ast.AnnAssign) and n.value is not None:
                self._store_targets(n.target, n, add)
            elif isinstance(n, ast.AugAssign):
                if isinstance(n.target, ast.Attribute):
                    add("aug-store", n, n.target.value, attr=n.target.attr)
                elif isinstance(n.target, ast.Subscript):
                    add("sub-store", n, n.target.value, attr="[]")
                elif isinstance(n.target, ast.Name) and isinstance(n.op, ast.Add):
                    # x += [...] mutates a list in place
                    tags = self.classify(fi, n.target, n)
                    pass
            elif isinstance(n, ast.Delete):
                for t in n.targets:
                    if isinstance(t, ast.Attribute):
                        add("del", n, t.value, attr=t.attr)
                    elif isinstance(t, ast.Subscript):
                        add("del", n, t.value, attr="[]")
            elif isinstance(n, ast.Call) and isinstance(n.func, ast.Attribute) and \
                    n.func.attr in self.mutators:
                # builtin container mutator unless the receiver resolves to a repo function
                add("mutcall", n, n.func.value, attr=n.func.attr)
            elif isinstance(n, (ast.For, ast.AsyncFor)):
                pass
        self._local[fi.qualname] = out
        return out

    def _store_targets(self, t, stmt, add):
        if isinstance(t, ast.Attribute):
            add("attr-store", stmt, t.value, attr=t.attr)
        elif isinstance(t, ast.Subscript):
            add("sub-store", stmt, t.value, attr="[]")
        elif isinstance(t, (ast.Tuple, ast.List)):
            for e in t.elts:
                self._store_targets(e, stmt, add)
        elif isinstance(t, ast.Starred):
            self._store_targets(t.value, stmt, add)

    # -- call graph -----------------------------------------------------------------
    def callees(self, fi, call):
        """Possible repo callees of a call inside fi (visitor protocol and decorators modelled)."""
        repo = self.repo
        n = call_name(call)
        out = []
        if n == "accept" and isinstance(call.func, ast.Attribute) and len(call.args) == 1:
            vis = call.args[0]
            vcls = None
            if isinstance(vis, ast.Name) and vis.id == "self" and fi.cls is not None:
                vcls = self._self_cls(fi) or fi.cls
            elif isinstance(vis, ast.Name):
                vcls = self._local_class(fi, vis, call)
            if vcls is not None:
                classes = [vcls] + vcls.all_subclasses()
                seen = set()
                for c in classes:
                    for k in c.mro():
                        for mn, m in k.methods.items():
                            if mn.startswith("visit_") and m.qualname not in seen:
                                # only the implementation that c would dispatch to
                                if c.lookup(mn) is m:
                                    seen.add(m.qualname)
                                    out.append(m)
                return self._with_decorators(out), "visitor"
        if n == "visit" and isinstance(call.func, ast.Attribute) and len(call.args) == 1:
            recv = call.func.value
            vcls = None
            if isinstance(recv, ast.Name) and recv.id == "self" and fi.cls is not None:
                vcls = self._self_cls(fi) or fi.cls
            elif isinstance(recv, ast.Name):
                vcls = self._local_class(fi, recv, call)
            if vcls is not None and vcls.lookup("visit") is not None and \
                    vcls.lookup("visit").cls.name == "ASTVisitor":
                for c in [vcls] + vcls.all_subclasses():
                    for k in c.mro():
                        for mn, m in k.methods.items():
                            if mn.startswith("visit_") and c.lookup(mn) is m and m not in out:
                                out.append(m)
                return self._with_decorators(out), "visitor"
        if isinstance(call.func, ast.Attribute) and isinstance(call.func.value, ast.Name) and \
                call.func.value.id == "self" and self._self_cls(fi) is not None and fi.outer is None:
            tg, how = repo.dispatch(self._self_cls(fi), call.func.attr)
            if tg:
                return self._with_decorators(tg), how
        local_types = None
        if isinstance(call.func, ast.Attribute) and isinstance(call.func.value, ast.Name) and \
                call.func.value.id not in ("self", "cls"):
            c = self._local_class(fi, call.func.value, call)
            if c is not None:
                local_types = {call.func.value.id: c}
        tg, how = repo.resolve_call(call, fi, local_types)
        # function-valued parameters / locals bound to lambdas are not followed here
        return self._with_decorators(tg), how

    def _self_cls(self, fi):
        sc = self.self_class
        if sc is not None and fi.cls is not None and any(c is fi.cls for c in sc.mro()):
            return sc
        return None

    def _with_decorators(self, fns):
        out = []
        for f in fns:
            if f not in out:
                out.append(f)
            for d in f.decorators:
                base = d.func if isinstance(d, ast.Call) else d
                tgt = self.repo.resolve_name_expr(base, f.module)
                if isinstance(tgt, FunctionInfo):
                    todo = list(tgt.nested.values())
                    while todo:
                        w = todo.pop()
                        if w not in out:
                            out.append(w)
                        todo.extend(w.nested.values())
        return out

    def _local_class(self, fi, name, at):
        """class of a local bound to a constructor call of a repo class (all defs agree)"""
        try:
            defs = cfg_of(fi.node).defs_reaching(name.id, at)
        except AnalysisError:
            return None
        cls = None
        for _d, v, k in defs:
            if not isinstance(v, ast.Call):
                return None
            c = self.repo.resolves_to_class(v.func, fi.module, fi)
            if c is None or (cls is not None and c is not cls):
                return None
            cls = c
        return cls

    def closure(self, entries, stop=None, max_fns=2000):
        """Functions reachable from `entries` over resolved calls. stop(f) -> True to not expand f."""
        seen, order, todo = set(), [], list(entries)
        edges = {}
        while todo:
            f = todo.pop()
            if f.qualname in seen:
                continue
            seen.add(f.qualname)
            order.append(f)
            if stop is not None and stop(f):
                continue
            if len(order) > max_fns:
                raise AnalysisError("call-graph closure exceeds %d functions" % max_fns)
            for sub in f.nested.values():
                todo.append(sub)
            for c in [n for n in iter_own_nodes(f.node) if isinstance(n, ast.Call)]:
                tg, how = self.callees(f, c)
                if tg:
                    self.resolved += 1
                elif how == "unresolved":
                    self.unresolved += 1
                for g in tg:
                    edges.setdefault(f.qualname, set()).add(g.qualname)
                    todo.append(g)
        return order, edges

    # -- interprocedural summaries ---------------------------------------------------
    def summarize(self, fns):
        """For the given functions compute {qualname: [Effect]} including effects derived from
        callees (root re-expressed in the caller).  Fixpoint."""
        byname = {f.qualname: f for f in fns}
        summ = {q: list(self.local(f)) for q, f in byname.items()}
        keys = {q: {(e.key(), e.tags) for e in es} for q, es in summ.items()}
        calls = {}
        for q, f in byname.items():
            cl = []
            for c in [n for n in iter_own_nodes(f.node) if isinstance(n, ast.Call)]:
                tg, _how = self.callees(f, c)
                tg = [g for g in tg if g.qualname in byname]
                if tg:
                    cl.append((c, tg))
            calls[q] = cl
        changed = True
        rounds = 0
        while changed:
            changed = False
            rounds += 1
            if rounds > 40:
                raise AnalysisError("effect fixpoint did not converge")
            for q, f in byname.items():
                for c, tg in calls[q]:
                    for g in tg:
                        for e in list(summ[g.qualname]):
                            for tag in e.tags:
                                new = self._lift(f, c, g, e, tag)
                                if new is None:
                                    continue
                                k = (new.key() + "|" + "|".join(new.via), new.tags)
                                if k not in keys[q]:
                                    keys[q].add(k)
                                    summ[q].append(new)
                                    changed = True
        return summ

    def _lift(self, f, call, g, e, tag):
        """Effect e of callee g with root tag `tag`, seen from call site `call` in f."""
        if len(e.via) >= 6:
            return None
        actual = None
        is_ctor_call = isinstance(self.repo.resolve_name_expr(call.func, call._module, f), ClassInfo)
        if tag == "self":
            if is_ctor_call:
                return None   # the receiver is the object under construction
            if isinstance(call.func, ast.Attribute):
                actual = call.func.value
                if isinstance(actual, ast.Call) and isinstance(actual.func, ast.Name) and \
                        actual.func.id == "super":
                    actual = ast.Name(id="self", ctx=ast.Load())
                    actual._parent = call
                    actual._module = call._module
            elif call_name(call) and isinstance(call.func, ast.Name):
                # constructor call: mutates the fresh object
                return None
        elif tag.startswith("param:"):
            p = tag[6:]
            params = g.params
            if p not in params:
                return None
            idx = params.index(p)
            bound_self = g.cls is not None and params and params[0] in ("self", "cls") and g.outer is None
            if bound_self:
                is_ctor = isinstance(self.repo.resolve_name_expr(call.func, call._module, f), ClassInfo) \
                    if not (isinstance(call.func, ast.Attribute) and call.func.attr == g.name) else False
                idx -= 1
                if call_name(call) in ("accept", "visit") and g.name.startswith("visit_"):
                    # x.accept(v) -> v.visit_k(x): the node is the receiver of accept / arg of visit
                    if call_name(call) == "accept":
                        actual = call.func.value if idx == 0 else None
                    else:
                        actual = call.args[0] if idx == 0 and call.args else None
                    idx = None
            if idx is not None:
                for k in call.keywords:
                    if k.arg == p:
                        actual = k.value
                if actual is None and 0 <= idx < len(call.args) and \
                        not any(isinstance(a, ast.Starred) for a in call.args[:idx + 1]):
                    actual = call.args[idx]
            if actual is None:
                return None
        elif tag.startswith("global:"):
            return Effect(f, e.kind, call, e.root, {tag}, e.path, via=(g.qualname,) + e.via, attr=e.attr)
        else:
            return None
        if isinstance(actual, (ast.Constant, ast.Lambda)):
            return None
        tags = self.classify(f, actual, call)
        tags = self._reach(tags) if True else tags
        if e.kind in ("attr-store", "aug-store", "del", "sub-store", "mutcall"):
            # the callee wrote into something reachable from the actual argument
            pass
        root, _p = attr_chain(actual)
        return Effect(f, e.kind, call, root, tags, e.path, via=(g.qualname,) + e.via, attr=e.attr)


def _root_name_node(expr):
    while isinstance(expr, (ast.Attribute, ast.Subscript, ast.Call, ast.Starred)):
        expr = expr.value if not isinstance(expr, ast.Call) else expr.func
    return expr


def _inside(node, fn):
    n = node
    while n is not None:
        if n is fn:
            return True
        n = getattr(n, "_parent", None)
    return False


def _assigned_in(fn_node, name):
    for n in iter_own_nodes(fn_node):
        if isinstance(n, ast.Name) and n.id == name and isinstance(n.ctx, ast.Store):
            return True
        if isinstance(n, (ast.FunctionDef, ast.ClassDef)) and n.name == name:
            return True
    return False


def _binder(name_node):
    p = getattr(name_node, "_parent", None)
    while p is not None and not isinstance(p, (ast.FunctionDef, ast.AsyncFunctionDef)):
        if isinstance(p, (ast.ListComp, ast.SetComp, ast.GeneratorExp, ast.DictComp)):
            for g in p.generators:
                if name_node.id in {x.id for x in ast.walk(g.target) if isinstance(x, ast.Name)}:
                    return ("comp", g.iter)
        if isinstance(p, ast.Lambda):
            a = p.args
            if name_node.id in [x.arg for x in a.args + a.kwonlyargs + a.posonlyargs]:
                return ("lambda", None)
        p = getattr(p, "_parent", None)
    return None
