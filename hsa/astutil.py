"""Small syntax-directed helpers: guards, leaving blocks, call finders."""
import ast

from .repo import iter_own_nodes, dotted_parts  # noqa: F401


def src(node):
    try:
        return ast.unparse(node)
    except Exception:  # pragma: no cover
        return "<%s>" % type(node).__name__


def parent(node):
    return getattr(node, "_parent", None)


def ancestors(node):
    n = parent(node)
    while n is not None:
        yield n
        n = parent(n)


def enclosing_stmt(node):
    n = node
    while n is not None and not isinstance(n, ast.stmt):
        n = parent(n)
    return n


def enclosing_def(node):
    for a in ancestors(node):
        if isinstance(a, (ast.FunctionDef, ast.AsyncFunctionDef)):
            return a
    return None


def is_within(node, container):
    if node is container:
        return True
    return any(a is container for a in ancestors(node))


def always_leaves(block):
    """True if executing the statement list always ends in
    return/continue/break/raise."""
    if not block:
        return False
    last = block[-1]
    if isinstance(last, (ast.Return, ast.Continue, ast.Break, ast.Raise)):
        return True
    if isinstance(last, ast.If):
        return bool(last.orelse) and always_leaves(last.body) and \
            always_leaves(last.orelse)
    if isinstance(last, (ast.With,)):
        return always_leaves(last.body)
    if isinstance(last, ast.Try):
        if last.finalbody and always_leaves(last.finalbody):
            return True
        return always_leaves(last.body) and \
            all(always_leaves(h.body) for h in last.handlers)
    return False


def _block_fields(stmt):
    for name in ("body", "orelse", "finalbody"):
        blk = getattr(stmt, name, None)
        if isinstance(blk, list) and blk and isinstance(blk[0], ast.stmt):
            yield name, blk
    if isinstance(stmt, ast.Try):
        for h in stmt.handlers:
            yield "handler", h.body
    if isinstance(stmt, ast.Match):
        for c in stmt.cases:
            yield "case", c.body


def guards(node, stop=None):
    """Signed tests controlling `node` inside its function (A1 of DESIGN).

    Returns a list of (test_expr, polarity) from outermost to innermost.
    Includes, for every earlier sibling `if T: <always leaves>` of an
    enclosing statement, (T, False) (or (T, True) when the else leaves).
    IfExp and comprehension `if`s enclosing an expression are included too.
    Under-approximates the path condition.
    """
    out = []
    n = node
    while n is not None and n is not stop:
        p = parent(n)
        if p is None:
            break
        if isinstance(p, (ast.FunctionDef, ast.AsyncFunctionDef, ast.Lambda)) \
                and n is not p:
            if isinstance(p, ast.Lambda) or stop is None or p is stop:
                if not isinstance(p, ast.Lambda):
                    # sibling analysis for function body happens below
                    pass
        # expression level guards
        if isinstance(p, ast.IfExp):
            if n is p.body:
                out.append((p.test, True))
            elif n is p.orelse:
                out.append((p.test, False))
        elif isinstance(p, ast.BoolOp) and isinstance(p.op, ast.And):
            idx = p.values.index(n) if n in p.values else -1
            for v in p.values[:max(idx, 0)]:
                out.append((v, True))
        elif isinstance(p, ast.BoolOp) and isinstance(p.op, ast.Or):
            idx = p.values.index(n) if n in p.values else -1
            for v in p.values[:max(idx, 0)]:
                out.append((v, False))
        elif isinstance(p, ast.comprehension):
            if n in p.ifs:
                for v in p.ifs[:p.ifs.index(n)]:
                    out.append((v, True))
        elif isinstance(p, (ast.ListComp, ast.SetComp, ast.GeneratorExp,
                            ast.DictComp)):
            elts = [p.elt] if not isinstance(p, ast.DictComp) else \
                [p.key, p.value]
            if n in elts:
                for g in p.generators:
                    for v in g.ifs:
                        out.append((v, True))
        # statement level guards
        if isinstance(n, ast.stmt):
            for fname, blk in _block_fields(p) if isinstance(p, (ast.stmt,)) \
                    else ():
                if n in blk:
                    if isinstance(p, ast.If):
                        if fname == "body":
                            out.append((p.test, True))
                        elif fname == "orelse":
                            out.append((p.test, False))
                    elif isinstance(p, ast.While) and fname == "body" and p is not stop:
                        out.append((p.test, True))
                    out.extend(_sibling_guards(blk, n))
                    break
            else:
                if isinstance(p, (ast.FunctionDef, ast.AsyncFunctionDef)):
                    out.extend(_sibling_guards(p.body, n))
                elif isinstance(p, ast.ExceptHandler):
                    out.extend(_sibling_guards(p.body, n))
                elif isinstance(p, ast.match_case):
                    out.extend(_sibling_guards(p.body, n))
            if isinstance(p, (ast.FunctionDef, ast.AsyncFunctionDef)):
                break
        n = p
    out.reverse()
    return out


def _mk(node, like):
    ast.copy_location(node, like)
    node._parent = getattr(like, "_parent", None)
    return node


def _leave_condition(block):
    """condition (an expression; True for "always") under which executing the statement list leaves the enclosing list
    (return / continue / break / raise); None if it never does or the shape is not `[simple stmts..] <if-chain>`"""
    if not block:
        return None
    if always_leaves(block):
        return True
    last = block[-1]
    if any(isinstance(n, (ast.Return, ast.Continue, ast.Break, ast.Raise)) for s in block[:-1] for n in ast.walk(s)):
        return None
    if not isinstance(last, ast.If):
        return None
    lb, le = _leave_condition(last.body), _leave_condition(last.orelse)
    parts = []
    if lb is not None:
        parts.append(last.test if lb is True else _mk(ast.BoolOp(op=ast.And(), values=[last.test, lb]), last.test))
    if le is not None:
        if lb is True:
            parts.append(True if le is True else le)      # test or (not test and le)  ==  test or le
        else:
            nt = _mk(ast.UnaryOp(op=ast.Not(), operand=last.test), last.test)
            parts.append(nt if le is True else _mk(ast.BoolOp(op=ast.And(), values=[nt, le]), last.test))
    parts = [p for p in parts if p is not True] if True not in parts else [True]
    if not parts:
        return None
    if parts == [True]:
        return True
    return parts[0] if len(parts) == 1 else _mk(ast.BoolOp(op=ast.Or(), values=parts), last.test)


def _sibling_guards(block, stmt):
    """the statement is reached only if none of the earlier sibling ifs left the block: (leave condition, False) each"""
    res = []
    for s in block:
        if s is stmt:
            break
        if isinstance(s, ast.If):
            lc = _leave_condition([s])
            if lc is not None and lc is not True:
                res.append((lc, False))
    return res


def flatten_guard(test, pol):
    """Split a signed test into signed leaves where that is sound:
    (a and b, True) -> a:True, b:True ; (a or b, False) -> a:False, b:False;
    not x flips.  Other combinations stay whole."""
    if isinstance(test, ast.UnaryOp) and isinstance(test.op, ast.Not):
        return flatten_guard(test.operand, not pol)
    if isinstance(test, ast.BoolOp):
        if isinstance(test.op, ast.And) and pol:
            out = []
            for v in test.values:
                out.extend(flatten_guard(v, True))
            return out
        if isinstance(test.op, ast.Or) and not pol:
            out = []
            for v in test.values:
                out.extend(flatten_guard(v, False))
            return out
    return [_positive(test, pol)]


_NEG_OPS = {ast.NotIn: ast.In, ast.IsNot: ast.Is, ast.NotEq: ast.Eq}


def _positive(test, pol):
    """canonical leaf: `a not in b` / `a is not b` / `a != b` under polarity p is `a in b` / `a is b` / `a == b` under
    not p - so `if x not in d: return` and `if x in d: ...` give the same guard"""
    if isinstance(test, ast.Compare) and len(test.ops) == 1 and type(test.ops[0]) in _NEG_OPS:
        new = ast.Compare(left=test.left, ops=[_NEG_OPS[type(test.ops[0])]()], comparators=test.comparators)
        ast.copy_location(new, test)
        new._parent = getattr(test, "_parent", None)
        new._orig = test
        return (new, not pol)
    return (test, pol)


def canon_guard(text, pol):
    """the canonical (text, polarity) form in which `flat_guards` reports the signed test written as `text`"""
    e = ast.parse(text, mode="eval").body
    out = flatten_guard(e, pol)
    if len(out) != 1:
        raise ValueError("canon_guard: `%s` flattens into %d leaves" % (text, len(out)))
    return (src(out[0][0]), out[0][1])


def flat_guards(node, stop=None):
    out = []
    for t, p in guards(node, stop):
        out.extend(flatten_guard(t, p))
    return _unit_propagate(out)


def _unit_propagate(leaves):
    """`not (a and b)` together with `a` gives `not b`; `(a or b)` together with `not a` gives `b` (the `elif a:` after
    `if a and b:` case).  Derived leaves are appended; the compound guard stays in the list."""
    out = list(leaves)
    for _ in range(3):
        known = {(src(t), p) for t, p in out}
        added = False
        for t, p in list(out):
            if not isinstance(t, ast.BoolOp):
                continue
            if isinstance(t.op, ast.And) and not p:
                want = True       # clause: some conjunct is false
            elif isinstance(t.op, ast.Or) and p:
                want = False      # clause: some disjunct is true
            else:
                continue
            rest = []
            for v in t.values:
                lv = flatten_guard(v, want)
                if all((src(a), b) in known for a, b in lv):
                    continue                      # this literal is known to fail the clause
                rest.append(v)
            if len(rest) == 1:
                for a, b in flatten_guard(rest[0], not want):
                    if (src(a), b) not in known:
                        out.append((a, b))
                        known.add((src(a), b))
                        added = True
        if not added:
            break
    return out


def calls_in(node, own_only=True):
    """All ast.Call nodes under node (not descending into nested defs when
    own_only and node is a function)."""
    if isinstance(node, (ast.FunctionDef, ast.AsyncFunctionDef)) and own_only:
        it = iter_own_nodes(node)
    else:
        it = ast.walk(node)
    return [n for n in it if isinstance(n, ast.Call)]


def call_name(call):
    """Last component of the callee expression ('is_subtype' for a.b.is_subtype())."""
    f = call.func
    if isinstance(f, ast.Attribute):
        return f.attr
    if isinstance(f, ast.Name):
        return f.id
    return None


def names_in(node):
    return {n.id for n in ast.walk(node) if isinstance(n, ast.Name)}


def attr_chain(expr):
    """x.a.b -> ('x', ['a','b']); also through subscripts and calls:
    x.a[0].b -> ('x', ['a','[]','b']); returns (None, []) if not rooted at a Name."""
    path = []
    while True:
        if isinstance(expr, ast.Attribute):
            path.append(expr.attr)
            expr = expr.value
        elif isinstance(expr, ast.Subscript):
            path.append("[]")
            expr = expr.value
        elif isinstance(expr, ast.Call):
            path.append("()")
            expr = expr.func
        elif isinstance(expr, ast.Starred):
            expr = expr.value
        else:
            break
    if isinstance(expr, ast.Name):
        return expr.id, list(reversed(path))
    return None, list(reversed(path))


def kwarg(call, name, pos=None):
    for k in call.keywords:
        if k.arg == name:
            return k.value
    if pos is not None and len(call.args) > pos and \
            not any(isinstance(a, ast.Starred) for a in call.args[:pos + 1]):
        return call.args[pos]
    return None


def const_value(expr, default=None):
    if isinstance(expr, ast.Constant):
        return expr.value
    return default


def same(a, b):
    """Structural AST equality (ignores positions)."""
    return ast.dump(a) == ast.dump(b)


def stmts_of(fn_node):
    """All statements of a function (own body; nested defs yielded but not entered)."""
    return [n for n in iter_own_nodes(fn_node) if isinstance(n, ast.stmt)]


def loops_enclosing(node, stop=None):
    return [a for a in ancestors(node)
            if isinstance(a, (ast.For, ast.While, ast.AsyncFor))]


def norm_key(node):
    """Normalised text key for a construct (position independent)."""
    return " ".join(src(node).split())
