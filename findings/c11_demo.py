"""Demonstration (not a check): translating a program to Kotlin writes into the program.
ClassDeclaration.get_abstract_functions (reached from KotlinTranslator.visit_class_decl through tu.is_sam)
stores into `.bound` of a type variable that belongs to the subclass.

class A<K> { abstract fun f(): K }      class B<K, U : Foo<K>, T : U> : A<T>

run: cd /repo && /venv/bin/python /verif/findings/c11_demo.py     (exit 1 if the defect shows)
"""
import os, sys, pickle
sys.path.insert(0, os.environ.get("HSA_REPO", "/repo"))
from src.ir import ast, types as tp, kotlin_types as kt
from src.ir.context import Context
from src.translators.kotlin import KotlinTranslator

foo_con = tp.TypeConstructor("Foo", [tp.TypeParameter("X")])
foo = ast.ClassDeclaration("Foo", [], ast.ClassDeclaration.REGULAR, [], [], type_parameters=[tp.TypeParameter("X")])
KA = tp.TypeParameter("K")
f = ast.FunctionDeclaration("f", [], KA, None, ast.FunctionDeclaration.CLASS_METHOD)
A = ast.ClassDeclaration("A", [], ast.ClassDeclaration.INTERFACE, [], [f], type_parameters=[KA])
K = tp.TypeParameter("K")
U = tp.TypeParameter("U", bound=foo_con.new([K]))
T = tp.TypeParameter("T", bound=U)
B = ast.ClassDeclaration("B", [ast.SuperClassInstantiation(A.get_type().new([T]), None)],
                         ast.ClassDeclaration.INTERFACE, [], [], type_parameters=[K, U, T])
ctx = Context()
prog = ast.Program(ctx, "kotlin")
for d in (foo, A, B):
    prog.add_declaration(d)
before = pickle.dumps(prog)
bound_before, id_before = str(T.bound), id(T.bound)
tr = KotlinTranslator()
tr.visit(prog)
text1 = tr.result()
changed = pickle.dumps(prog) != before or id(T.bound) != id_before
print("T.bound before: %s   after: %s   same object: %s" % (bound_before, T.bound, id(T.bound) == id_before))
if changed:
    print("DEFECT: translating to Kotlin modified the program (type parameter T of class B)")
sys.exit(1 if changed else 0)
