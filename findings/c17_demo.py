"""Demonstration (not a check): with use-site variance disabled, generated programs can still contain
use-site projections.  They are created by TypeParameter.get_bound_rec -> ParameterizedType.to_type_variable_free
-> _to_type_variable_free, which builds `out <bound>` / `*` projections without consulting the switch.

run: cd /repo && PYTHONHASHSEED=0 /venv/bin/python /verif/findings/c17_demo.py [first_seed last_seed]
 part 1 (always): direct call on a hand-built bound
 part 2: generator runs with cfg.dis.use_site_variance = True; Kotlin text searched for projections
exit 1 if the defect shows
"""
import os, re, sys
sys.path.insert(0, os.environ.get("HSA_REPO", "/repo"))
sys.argv = sys.argv[:1] + [a for a in sys.argv[1:]]
lo, hi = (int(sys.argv[1]), int(sys.argv[2])) if len(sys.argv) >= 3 else (0, 0)
sys.argv = sys.argv[:1]
from src.ir import types as tp, kotlin_types as kt
from src.generators.config import cfg
from src import utils as ut

cfg.dis.use_site_variance = True
cfg.dis.use_site_contravariance = True
bad = 0
f = kt.KotlinBuiltinFactory()
X = tp.TypeParameter("X")
foo = tp.TypeConstructor("Foo", [tp.TypeParameter("Y")])
T = tp.TypeParameter("T", bound=foo.new([X]))
b = T.get_bound_rec(f)
print("get_bound_rec(T : Foo<X>) with use-site variance disabled ->", b)
if any(a.is_wildcard() for a in b.type_args):
    print("DEFECT part 1: a fresh use-site projection although cfg.dis.use_site_variance is set"); bad = 1

if hi > lo:
    from src.generators.generator import Generator
    def projections(root):
        """every WildCardType object reachable from the program (object-graph walk)"""
        seen, todo, out = set(), [root], []
        while todo:
            o = todo.pop()
            if id(o) in seen or isinstance(o, (str, int, float, bool, type(None))):
                continue
            seen.add(id(o))
            if isinstance(o, tp.WildCardType):
                out.append(o)
            if isinstance(o, dict):
                todo.extend(o.keys()); todo.extend(o.values())
            elif isinstance(o, (list, tuple, set, frozenset)):
                todo.extend(o)
            elif hasattr(o, "__dict__"):
                todo.extend(vars(o).values())
        return out
    hits = []
    for seed in range(lo, hi):
        ut.random.r.seed(seed)
        ut.random.reset_word_pool()
        try:
            p = Generator(language="kotlin").generate()
        except Exception as e:
            continue
        ws = projections(p)
        if ws:
            hits.append((seed, ", ".join(sorted({str(w) for w in ws}))[:80]))
    print("programs with projections: %d of %d" % (len(hits), hi - lo))
    for s, ctx in hits[:3]:
        print("  seed %d: ...%s..." % (s, ctx))
    if hits:
        print("DEFECT part 2: generated programs contain use-site projections with the switch set"); bad = 1
sys.exit(bad)
