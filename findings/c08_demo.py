"""Demonstration (not a check): _compute_type_variable_assignments puts a use-site projection on a
type parameter that a later parameter's bound mentions (inner loop rebinds the index `i`).

run: cd /repo && /venv/bin/python /verif/findings/c08_demo.py     (exit 1 if the defect shows)
"""
import os, sys
sys.path.insert(0, os.environ.get("HSA_REPO", "/repo"))
from src.ir import types as tp, kotlin_types as kt, type_utils as tu
from src import utils
from src.generators.config import cfg

cfg.dis.use_site_variance = False
cfg.dis.use_site_contravariance = False
T1 = tp.TypeParameter("T1", bound=kt.NumberType())
bar = tp.TypeConstructor("Bar", [tp.TypeParameter("X")])
T2 = tp.TypeParameter("T2", bound=bar.new([T1]))
A = tp.TypeConstructor("A", [T1, T2])
types = [kt.NumberType(), kt.ShortType(), kt.IntegerType(), kt.StringType(), bar]
bad = 0
for seed in range(200):
    utils.random.r.seed(seed)
    t, _ = tu.instantiate_type_constructor(A, types, variance_choices={})
    if t.type_args[0].is_wildcard():
        bad += 1
        example = t
print("projection on T1 (mentioned by the bound of T2) in %d of 200 seeds" % bad)
if bad:
    print("DEFECT e.g.", example)
sys.exit(1 if bad else 0)
