"""Demonstration (not a check): find_irrelevant_type returns a SUBTYPE of the query type when a generic
subclass exists (class B<T> : A<T>; query A<String> -> B<String>).

run: cd /repo && /venv/bin/python /verif/findings/c09_demo.py     (exit 1 if the defect shows)
"""
import os, sys
sys.path.insert(0, os.environ.get("HSA_REPO", "/repo"))
from src.ir import types as tp, kotlin_types as kt, type_utils as tu
from src import utils

f = kt.KotlinBuiltinFactory()
A = tp.TypeConstructor("A", [tp.TypeParameter("T")])
T = tp.TypeParameter("T")
B = tp.TypeConstructor("B", [T], supertypes=[A.new([T])])
q = A.new([kt.StringType()])
types = [A, B, kt.StringType(), kt.IntegerType(), kt.AnyType()]
bad = 0
for seed in range(400):
    utils.random.r.seed(seed)
    t = tu.find_irrelevant_type(q, types, f)
    if t is not None and (t.is_subtype(q) or q.is_subtype(t)):
        bad += 1
        ex = t
print("related result in %d of 400 seeds" % bad)
if bad:
    print("DEFECT: find_irrelevant_type(%s) returned %s, is_subtype=%s" % (q, ex, ex.is_subtype(q)))
sys.exit(1 if bad else 0)
