"""Demonstration (not a check): the Java and Groovy translators never print the explicit type arguments of a
generic function call.  Replacing the explicit type argument (what TypeOverwriting does when it picks the
call's instantiation node) changes the Kotlin and Scala text but leaves the Java and Groovy text unchanged,
so an "injected" error is invisible to javac / groovyc and gets reported as SHOULD NOT BE COMPILED.

run: cd /repo && /venv/bin/python /verif/findings/c12_demo.py   (exit 1 if the defect shows)
"""
import os, sys, copy
sys.path.insert(0, os.environ.get("HSA_REPO", "/repo"))
from src.ir import ast, types as tp, kotlin_types as kt, java_types as jt, groovy_types as gt, scala_types as sc
from src.ir.context import Context
from src.translators.kotlin import KotlinTranslator
from src.translators.java import JavaTranslator
from src.translators.groovy import GroovyTranslator
from src.translators.scala import ScalaTranslator

def build(lang, mod, type_arg):
    T = tp.TypeParameter("T")
    x = ast.ParameterDeclaration("x", T)
    ident = ast.FunctionDeclaration("ident", [x], T, ast.Variable("x"), ast.FunctionDeclaration.FUNCTION,
                                    type_parameters=[T])
    call = ast.FunctionCall("ident", [ast.CallArgument(ast.StringConstant("a"))], type_args=[type_arg])
    y = ast.VariableDeclaration("y", call, is_final=True, var_type=mod.StringType())
    main = ast.FunctionDeclaration("main", [], mod.VoidType() if hasattr(mod, "VoidType") else mod.Unit,
                                   ast.Block([y, ast.Variable("y")]), ast.FunctionDeclaration.FUNCTION)
    ctx = Context()
    p = ast.Program(ctx, lang)
    p.add_declaration(ident)
    p.add_declaration(main)
    return p

bad = 0
for lang, mod, tr in (("kotlin", kt, KotlinTranslator), ("scala", sc, ScalaTranslator),
                      ("java", jt, JavaTranslator), ("groovy", gt, GroovyTranslator)):
    texts = []
    for targ in (mod.StringType(), mod.IntegerType()):
        t = tr()
        t.visit(build(lang, mod, targ))
        texts.append(t.result())
    same = texts[0] == texts[1]
    print("%-7s text %s when the explicit type argument changes from String to Int" % (lang, "UNCHANGED" if same else "changes"))
    if same:
        bad = 1
if bad:
    print("DEFECT: an explicit type argument carried by the program is not printed in the languages marked UNCHANGED")
sys.exit(bad)
