"""Demonstration (not a check): find_longest_paths returned paths that are not maximal.  `exist(x, y)` compared x with
y[:len(y) - len(x) + 1], which can only hold when len(y) == 2 * len(x) - 1; it agrees with 'x is a proper prefix of y'
only for paths of up to three vertices (all the test-suite uses).

run: cd /repo && /venv/bin/python /verif/findings/c19_demo.py     (exit 1 if the defect shows)
"""
import itertools, os, sys
sys.path.insert(0, os.environ.get("HSA_REPO", "/repo"))
from src import graph_utils as gu

bad = 0
g = {'s': ['a'], 'a': ['b'], 'b': ['c'], 'c': []}
got = gu.find_longest_paths(g, 's')
print("chain s->a->b->c:", got)
if got != [['s', 'a', 'b', 'c']]:
    print("DEFECT: non-maximal path returned"); bad = 1


def maximal(paths):
    return [x for x in paths if not any(len(x) < len(p) and p[:len(x)] == x for p in paths)]


# every digraph on 4 vertices: the result is exactly the set of simple paths from v that cannot be extended
V = [0, 1, 2, 3]
pairs = [(a, b) for a in V for b in V]
n = 0
for mask in range(0, 1 << len(pairs), 37):       # a sample of the 65 536 graphs, the demo is not a check
    g = {v: [] for v in V}
    for i, (a, b) in enumerate(pairs):
        if mask >> i & 1:
            g[a].append(b)
    for v in V:
        want = maximal(gu.find_all_paths(g, v))
        got = gu.find_longest_paths(g, v)
        n += 1
        if sorted(got) != sorted(want):
            if not bad:
                print("DEFECT:", g, v, "got", got, "want", want)
            bad = 1
print(n, "queries compared")
sys.exit(bad)
