"""Demonstration (not a check): unify_types ignores projection variance and star projections.

run: cd /repo && /venv/bin/python /verif/findings/c10_demo.py     (exit 1 if the defect shows)
"""
import os, sys
sys.path.insert(0, os.environ.get("HSA_REPO", "/repo"))
from src.ir import types as tp, kotlin_types as kt, type_utils as tu

f = kt.KotlinBuiltinFactory()
T = tp.TypeParameter("T")
A = tp.TypeConstructor("A", [tp.TypeParameter("X")])
bad = 0
target = A.new([tp.WildCardType(kt.StringType(), tp.Covariant)])
pattern = A.new([tp.WildCardType(T, tp.Contravariant)])
res = tu.unify_types(target, pattern, f)
if res:
    applied = tp.substitute_type(pattern, res)
    print("unify(%s, %s) = %s ; pattern after substitution: %s ; equal to target: %s" % (
        target, pattern, res, applied, applied == target))
    if applied != target:
        print("DEFECT case1: a non-empty assignment that does not make the pattern equal to the target"); bad = 1
else:
    print("OK case1: {}")
star = A.new([tp.WildCardType()])
pattern2 = A.new([tp.WildCardType(T, tp.Covariant)])
try:
    res = tu.unify_types(star, pattern2, f)
    print("unify(%s, %s) = %s" % (star, pattern2, res))
    if res and any(v is None for v in res.values()):
        print("DEFECT case2: a type variable is assigned None"); bad = 1
except Exception as e:
    print("DEFECT case2: exception", type(e).__name__, e); bad = 1
# sanity: same variance still unifies
same = tu.unify_types(A.new([tp.WildCardType(kt.StringType(), tp.Covariant)]), pattern2, f)
print("unify(A<out String>, A<out T>) =", same)
if same != {T: kt.StringType()}:
    print("REGRESSION: same-variance projections must still unify"); bad = 1
sys.exit(bad)
