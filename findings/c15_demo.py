"""Demonstration (not a check): two defects of hephaestus.check_oracle against the real code.

run: cd /repo && /venv/bin/python /verif/findings/c15_demo.py
 1. compiler crash + tool failure in one batch: the tool-failed program is not reported
 2. correct program rejected AND incorrect program accepted for one pid: copytree twice -> FileExistsError
Prints DEFECT/OK per case; exit 1 if a defect shows.
"""
import os, sys, tempfile, shutil
root = os.environ.get("HSA_REPO", "/repo")
sys.path.insert(0, root)
work = tempfile.mkdtemp(prefix="c15demo-")
sys.argv = ["hephaestus.py", "--bugs", work, "--name", "s", "--iterations", "1", "--language", "kotlin", "--batch", "1"]
os.chdir(work)
import hephaestus as H

class StubCompiler:
    crash = None
    failed = {}
    def __init__(self, input_name, filter_patterns=None):
        self.crash_msg = None
    def get_compiler_cmd(self):
        return ["true"]
    def analyze_compiler_output(self, out):
        self.crash_msg = StubCompiler.crash
        return dict(StubCompiler.failed), []

H.COMPILERS = {k: StubCompiler for k in H.COMPILERS}
H.run_command = lambda args, get_stdout=True: (True, "")
td = H.cli_args.test_directory
bad = 0

def mk(pid):
    d = os.path.join(td, "tmp", str(pid)); os.makedirs(d, exist_ok=True)
    open(os.path.join(d, "program.kt"), "w").write("x")

# case 1
batch = tempfile.mkdtemp(prefix="c15batch-")
mk(2)
oracles = {1: H.ProgramRes(True, {"error": "tool failed", "program": None}),
           2: H.ProgramRes(False, {"error": None, "programs": {os.path.join(batch, "src/a/program.kt"): True}})}
StubCompiler.crash = "java.lang.IllegalStateException"; StubCompiler.failed = {}
out, _ = H.check_oracle(batch, oracles)
if 1 not in out:
    print("DEFECT case1: compiler crash + tool failure: pid 1 (tool failed) missing from the reported faults", sorted(out)); bad = 1
else:
    print("OK case1: reported", sorted(out))

# case 2
batch = tempfile.mkdtemp(prefix="c15batch-")
mk(3)
good = os.path.join(batch, "src/a/program.kt"); wrong = os.path.join(batch, "src/b/program.kt")
oracles = {3: H.ProgramRes(False, {"error": "Expected type mismatch", "programs": {good: True, wrong: False}})}
StubCompiler.crash = None; StubCompiler.failed = {good: ["error: boom"]}
try:
    out, _ = H.check_oracle(batch, oracles)
    print("OK case2: reported", sorted(out), "saved:", os.path.isdir(os.path.join(td, "3")))
except FileExistsError as e:
    print("DEFECT case2: correct program rejected and incorrect accepted for one pid:", type(e).__name__, e); bad = 1
shutil.rmtree(work, ignore_errors=True)
sys.exit(bad)
