"""C14 demo (change 2): every error diagnostic printed by the compiler must be
attributed to the source file it was printed for, for any file name the tool
itself can generate.

The real driver (hephaestus.main -> run -> _run -> check_oracle ->
<Compiler>.analyze_compiler_output) is executed.  Only two things are
replaced, because no compiler may be assumed to be installed and generating
real programs is slow:
  * hephaestus.gen_program  -> writes tiny hand-made sources with the real
                               hephaestus.save_program under the directory and
                               package names chosen by the real _run;
  * hephaestus.run_command  -> a stand-in compiler that prints javac / kotlinc
                               formatted diagnostics (path exactly as it was
                               given on the command line) for the sources that
                               contain a type error.
The tool is started from a working directory, like a user would do.  One run
uses a plain directory name, the others a checkout-like name
("hephaestus-v1.2").  For every batch the set of files returned by the
analysis is compared with the set of files the compiler complained about, and
the final faults report is compared with the expected one.
"""
import glob
import json
import os
import shutil
import subprocess
import sys
import tempfile

REPO = os.environ.get("HSA_REPO", "/tmp/s6/c14")
SCRATCH = "/tmp/s6/out_c14/scratch/change2"
BAD_MARK = "TYPE_ERROR_HERE"


def child(language, workdir_name):
    workdir = os.path.join(SCRATCH, language + "_" + workdir_name)
    shutil.rmtree(workdir, ignore_errors=True)
    os.makedirs(workdir)
    sane_tmp = os.path.join(SCRATCH, "systmp")
    os.makedirs(sane_tmp, exist_ok=True)
    tempfile.tempdir = sane_tmp          # the "system" temp dir: plain name
    os.chdir(workdir)                    # the user starts the tool from here
    sys.path.insert(0, REPO)
    sys.argv = ["hephaestus.py", "--language", language, "--iterations", "3",
                "--batch", "3", "--bugs", os.path.join(workdir, "bugs"),
                "--name", "session", "-t", "0"]
    import src
    assert os.path.realpath(src.__file__).startswith(
        os.path.realpath(REPO)), src.__file__
    import hephaestus as h

    ext = {"java": "Main.java", "kotlin": "program.kt"}[language]
    # pid -> (correct program has an error?, faulty program has an error?)
    plan = {1: (False, True),    # compiler behaves as expected
            2: (True, True),     # compiler rejects a well-typed program
            3: (False, False)}   # compiler accepts an ill-typed program

    def fake_gen_program(pid, dirname, packages):
        translator = h.TRANSLATORS[language]
        assert translator.get_filename() == ext
        progs = {}
        for pkg, bad, oracle in ((packages[0], plan[pid][0], True),
                                 (packages[1], plan[pid][1], False)):
            text = "package src.%s;\n// %s\n" % (
                pkg, BAD_MARK if bad else "fine")
            dst = os.path.join(dirname, pkg, translator.get_filename())
            h.save_program("ir", text, dst)
            h.save_program("ir", text, os.path.join(
                h.cli_args.test_directory, "tmp", str(pid),
                translator.get_filename() if oracle
                else translator.get_incorrect_filename()))
            progs[dst] = oracle
        return h.ProgramRes(False, {
            "transformations": [], "error": "injected fault",
            "programs": progs, "time": 0.0})

    complained = []

    def fake_run_command(arguments, get_stdout=True):
        if "-version" in arguments:
            return True, "fake-compiler 1.0\n"
        if language == "java":
            files = sorted(glob.glob(arguments[-1]))
        else:
            files = sorted(glob.glob(os.path.join(arguments[1], "*", "*.kt")))
        lines, bad = [], []
        for f in files:
            with open(f) as inp:
                if BAD_MARK not in inp.read():
                    continue
            bad.append(f)
            if language == "java":
                lines += [f + ":2: error: incompatible types: String cannot "
                          "be converted to int",
                          "        int x = \"s\";",
                          "                ^"]
            else:
                lines += [f + ":2:18: error: type mismatch: inferred type is "
                          "String but Int was expected",
                          "    val x: Int = \"s\"",
                          "                 ^"]
        if language == "java" and bad:
            lines.append("%d errors" % len(bad))
        complained.append(bad)
        return not bad, "\n".join(lines) + "\n"

    analysed = []
    cls = h.COMPILERS[language]
    orig = cls.analyze_compiler_output

    def spy(self, output):
        failed, matches = orig(self, output)
        analysed.append(None if failed is None else
                        {k: list(v) for k, v in failed.items()})
        return failed, matches

    cls.analyze_compiler_output = spy
    h.gen_program = fake_gen_program
    h.run_command = fake_run_command
    devnull = open(os.devnull, "w")
    real_stdout, sys.stdout = sys.stdout, devnull
    try:
        h.main()
    finally:
        sys.stdout = real_stdout
    faults = h.STATS["faults"]
    res = {
        "language": language,
        "workdir": workdir,
        "complained": complained,
        "analysed": [sorted(a) if a is not None else None for a in analysed],
        "faults": {str(k): v.get("error") for k, v in faults.items()},
    }
    print("RESULT " + json.dumps(res))


def parent():
    shutil.rmtree(SCRATCH, ignore_errors=True)
    os.makedirs(SCRATCH)
    ok = True
    for language, wd in (("java", "workspace"),
                         ("java", "hephaestus-v1.2"),
                         ("kotlin", "hephaestus-v1.2")):
        env = dict(os.environ, HSA_REPO=REPO, PYTHONPATH=REPO)
        proc = subprocess.run(
            [sys.executable, os.path.abspath(__file__), "--child", language,
             wd], capture_output=True, text=True, env=env, timeout=120)
        line = [l for l in proc.stdout.splitlines() if l.startswith("RESULT ")]
        if proc.returncode != 0 or not line:
            print("child failed:", proc.stdout[-2000:], proc.stderr[-2000:])
            ok = False
            continue
        res = json.loads(line[0][len("RESULT "):])
        print("== %s, tool started in %s" % (language, res["workdir"]))
        good = True
        if len(res["complained"]) != 1 or len(res["analysed"]) != 1:
            good = False
        for bad, got in zip(res["complained"], res["analysed"]):
            print("   compiler printed errors for : %s" % sorted(bad))
            print("   analysis returned the files : %s" % got)
            if got is None or sorted(bad) != got:
                good = False
        errs = res["faults"]
        print("   faults reported             : %s" % errs)
        expected_ok = (
            sorted(errs) == ["2", "3"]
            and ("incompatible types" in (errs["2"] or "")
                 or "type mismatch" in (errs["2"] or ""))
            and (errs["3"] or "").startswith("SHOULD NOT BE COMPILED"))
        if not expected_ok:
            good = False
        print("   -> %s" % ("ok" if good else "WRONG attribution"))
        ok = ok and good
    if ok:
        print("PASS")
        return 0
    print("FAIL: diagnostics were not attributed to the programs of the batch")
    return 1


if __name__ == "__main__":
    if len(sys.argv) > 1 and sys.argv[1] == "--child":
        child(sys.argv[2], sys.argv[3])
    else:
        sys.exit(parent())
