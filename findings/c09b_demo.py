"""Demonstration (not a check): find_irrelevant_type followed only one level of a type variable's bound.  For
T : U, U : Foo the search ran on the type variable U itself, so Foo (a supertype of everything T can be) and Baz : Foo
stayed "available" and were returned as irrelevant - the overwriting mutation would then report a well-typed program as
SHOULD NOT BE COMPILED.

run: cd /repo && /venv/bin/python /verif/findings/c09b_demo.py     (exit 1 if the defect shows)
"""
import os, sys
sys.path.insert(0, os.environ.get("HSA_REPO", "/repo"))
sys.argv = ["x"]
from src.ir import types as tp, kotlin_types as kt, type_utils as tu, ast
from src import utils as ut

f = kt.KotlinBuiltinFactory()


def cls(name, supers=()):
    return ast.ClassDeclaration(name, [ast.SuperClassInstantiation(s, []) for s in supers], ast.ClassDeclaration.REGULAR,
                                fields=[], functions=[], is_final=False)


Foo = cls("Foo"); Bar = cls("Bar"); Baz = cls("Baz", [Foo.get_type()])
U = tp.TypeParameter("U", bound=Foo.get_type())
T = tp.TypeParameter("T", bound=U)
seen = {}
for s in range(300):
    ut.random.r.seed(s)
    t = tu.find_irrelevant_type(T, [Foo, Bar, Baz], f)
    seen[str(t)] = seen.get(str(t), 0) + 1
print("find_irrelevant_type(T : U, U : Foo) over 300 seeds:", seen)
bad = [k for k in seen if k.startswith(("Foo", "Baz"))]
if bad:
    print("DEFECT: related types returned as irrelevant:", bad)
sys.exit(1 if bad else 0)
