"""Demonstration (not a check): in sequential mode two programs of ONE batch can get the same package name,
because gen_program() resets the word pool, which puts the package names already handed to earlier programs of
the batch back into the pool.  The later program then overwrites the earlier one's source file and both are
judged on the same file.

Drives the real hephaestus._run / gen_program (replay of one tiny saved program, dry run, one big batch) and
counts the package directories that were written.

run: cd /repo && /venv/bin/python /verif/findings/c02_demo.py [programs=1500]    (exit 1 if the defect shows)
"""
import os, sys, tempfile, shutil, pickle
root = os.environ.get("HSA_REPO", "/repo")
sys.path.insert(0, root)
n = int(sys.argv[1]) if len(sys.argv) > 1 else 1500
work = tempfile.mkdtemp(prefix="c02demo-")
# a tiny program to replay
sys.argv = ["hephaestus.py"]
from src.ir import ast, kotlin_types as kt
from src.ir.context import Context
ctx = Context()
prog = ast.Program(ctx, "kotlin")
prog.add_declaration(ast.FunctionDeclaration("main", [], kt.Unit, ast.Block([]), ast.FunctionDeclaration.FUNCTION))
binp = os.path.join(work, "p.bin")
pickle.dump(prog, open(binp, "wb"))
for m in [k for k in sys.modules if k == "src" or k.startswith("src.")]:
    del sys.modules[m]
sys.argv = ["hephaestus.py", "--bugs", work, "--name", "s", "--iterations", str(n), "--batch", str(n),
            "--language", "kotlin", "-t", "0", "-P", "-N", "-R", binp]
os.chdir(work)
import hephaestus as H
H.logging = lambda: None
H.print_msg = lambda: None
seen = {}

def process_res(start, res, testdir, batch):
    dirs = os.listdir(os.path.join(testdir, "src"))
    seen["programs"] = len(res)
    seen["dirs"] = len(dirs)
    shutil.rmtree(testdir)

H._run(lambda pid, dirname, packages: H.gen_program(pid, dirname, packages), process_res)
print("programs in the batch: %d, package directories written: %d" % (seen["programs"], seen["dirs"]))
shutil.rmtree(work, ignore_errors=True)
if seen["dirs"] < seen["programs"]:
    print("DEFECT: %d programs of one batch share a package directory with another program" % (seen["programs"] - seen["dirs"]))
    sys.exit(1)
sys.exit(0)
