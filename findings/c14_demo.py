"""Demonstration (not a check): diagnostics of a file below a directory whose name has a character outside
[a-zA-Z0-9_/] (TMPDIR=/tmp/build-7, a checkout called hephaestus-v1.2) were attributed to a path *suffix*, i.e. to a file
that does not exist: the real file got no error (a rejected well-typed program was not reported, a correctly rejected
ill-typed one was reported as 'SHOULD NOT BE COMPILED').

run: cd /repo && /venv/bin/python /verif/findings/c14_demo.py     (exit 1 if the defect shows)
"""
import os, sys
sys.path.insert(0, os.environ.get("HSA_REPO", "/repo"))
sys.argv = ["x"]
from src.compilers.java import JavaCompiler
from src.compilers.kotlin import KotlinCompiler
from src.compilers.groovy import GroovyCompiler

bad = 0
d = "/tmp/build-7.x/src"
cases = [
    (JavaCompiler, d + "/lemon/Main.java",
     d + "/lemon/Main.java:3: error: incompatible types: String cannot be converted to int\n    int x = \"a\";\n"
     "            ^\n" + d + "/lemon/Main.java:5: warning: [x] y\n1 error\n"),
    (KotlinCompiler, d + "/lemon/Main.kt",
     "warning: some flag\n" + d + "/lemon/Main.kt:3:5: error: type mismatch: inferred type is String but Int was expected\n"
     + d + "/lemon/Main.kt:4:5: warning: unused\n"),
    (GroovyCompiler, d + "/lemon/Main.groovy",
     "org.codehaus.groovy.control.MultipleCompilationErrorsException: startup failed:\n" + d +
     "/lemon/Main.groovy: 3: [Static type checking] - Cannot assign value of type java.lang.String to variable of type int\n"
     " @ line 3, column 9.\n   int x = \"a\"\n           ^\n\n1 error\n"),
]
for cls, path, out in cases:
    failed, _ = cls(d).analyze_compiler_output(out)
    keys = sorted(failed)
    print(cls.__name__, "->", keys)
    if keys != [path]:
        print("DEFECT: the diagnostic of %s is keyed to %s" % (path, keys)); bad = 1
# sanity: plain paths still work
failed, _ = JavaCompiler("/tmp/abc/src").analyze_compiler_output("/tmp/abc/src/x/Main.java:3: error: boom\n\n")
if sorted(failed) != ["/tmp/abc/src/x/Main.java"]:
    print("REGRESSION: plain path"); bad = 1
sys.exit(bad)
