#!/bin/bash
# usage: tools/run_on_tree.sh <root of a repo copy>   - runs every property's rules on another tree, prints new violations
for p in 01 02 03 04 05 06 07 08 09 10 11 12 13 14 15 16 17 19; do (HSA_REPO=$1 /venv/bin/python -B -c "
import sys
sys.path.insert(0,'/verif')
from hsa.cli import load_prop, run_rules
from hsa.repo import Repo
from hsa import report
m=load_prop('C$p'); r=Repo('$1')
obs,summ,errs=run_rules(m,r)
known=report.load_known()
bad=[(o.rule,o.key[:80]) for o in obs if not o.ok and not report.match_known('C$p',o,known)]
print('C$p', 'violations',len(bad),'errors',len(errs))
for b in bad[:12]: print('    V',b)
for e in errs[:6]: print('    E',e[0],str(e[2])[:120])
" > /tmp/rot_$p.log 2>&1 &) ; done; sleep ${2:-40}; cat /tmp/rot_*.log | cut -c1-200; rm -f /tmp/rot_*.log
