#!/venv/bin/python
"""Re-run every quick check against every kept seeded change (meta.json 'checks'/'detected_by' are refreshed).
usage: tools/reeval_seeds.py [seed-id ...]"""
import glob, json, os, subprocess, sys, time
PROPS = ["C%02d" % i for i in list(range(1, 18)) + [19]]
def sh(c):
    r = subprocess.run(c, shell=True, capture_output=True, text=True)
    return r.returncode, r.stdout + r.stderr
only = set(sys.argv[1:])
assert sh("git -C /repo status --porcelain")[1].strip() == "", "/repo not clean"
for mp in sorted(glob.glob("/verif/seeded/*/meta.json")):
    m = json.load(open(mp))
    if only and m["seed"] not in only:
        continue
    patch = os.path.join(os.path.dirname(mp), "patch.diff")
    verdicts = {}
    try:
        rc, o = sh("git -C /repo apply %s" % patch)
        assert rc == 0, o
        procs = {p: subprocess.Popen("./check %s quick" % p, shell=True, cwd="/verif", stdout=subprocess.PIPE,
                                     stderr=subprocess.STDOUT, text=True) for p in PROPS}
        for p, pr in procs.items():
            o, _ = pr.communicate()
            keys, lines = [], o.splitlines()
            for i, l in enumerate(lines):
                if l.startswith("VIOLATION") and i + 1 < len(lines):
                    keys.append(" ".join(lines[i + 1].split())[:160])
                if l.startswith("ANALYSIS-ERROR"):
                    keys.append(l[:160])
            verdicts[p] = {"rc": pr.returncode, "reports": keys[:6]}
    finally:
        sh("git -C /repo checkout -- . && git -C /repo clean -fdq")
    if m["seed"][-1] in "efgh" and "first_pass" not in m:
        # round 3 was held out: remember what the frozen checks (before any strengthening) said
        m["first_pass"] = {"detected_by": m.get("detected_by", []), "verif_commit": m.get("verif_commit")}
    prev = set(m.get("ever_detected_by", [])) | set(m.get("detected_by", []))
    m["checks"] = {p: v for p, v in verdicts.items() if v["rc"] != 0}
    m["detected_by"] = sorted(p for p, v in verdicts.items() if v["rc"] == 1)
    # never forgotten: the thorough tier replays a seed for every property that ever reported it
    m["ever_detected_by"] = sorted(prev | set(m["detected_by"]))
    lost = sorted(prev - set(m["detected_by"]))
    if lost:
        print("REGRESSION %s no longer reported by %s" % (m["seed"], lost), flush=True)
    m["analysis_error_in"] = sorted(p for p, v in verdicts.items() if v["rc"] == 2)
    m["silent"] = sorted(p for p, v in verdicts.items() if v["rc"] == 0)
    m["evaluated_at"] = time.strftime("%Y-%m-%dT%H:%M:%SZ", time.gmtime())
    m["verif_commit"] = sh("git -C /verif rev-parse --short HEAD")[1].strip()
    json.dump(m, open(mp, "w"), indent=1)
    print(m["seed"], "detected_by", m["detected_by"], "exit2", m["analysis_error_in"], flush=True)
