#!/venv/bin/python
"""usage: tools/show_norm.py <patch or -> <module> <function name>   - prints the function as the rules see it
(after helper inlining, comprehension desugaring, local inlining, alpha-canonicalisation) with the patch applied to /repo."""
import ast, subprocess, sys
sys.path.insert(0, "/verif")
patch, mod, fn = sys.argv[1:4]
if patch != "-":
    assert subprocess.run("git -C /repo status --porcelain", shell=True, capture_output=True, text=True).stdout.strip() == ""
    import os; subprocess.check_call("git -C /repo apply %s" % os.path.abspath(patch), shell=True)
try:
    from hsa.repo import Repo
    r = Repo()
    m = r.module(mod)
    print("normalized:", m.normalized, "renamed:", m.renamed_locals)
    for n in ast.walk(m.tree):
        if isinstance(n, ast.FunctionDef) and n.name == fn:
            print(ast.unparse(n))
finally:
    if patch != "-":
        subprocess.check_call("git -C /repo checkout -- .", shell=True)
