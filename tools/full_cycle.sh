#!/bin/bash
# full regression cycle of the machinery itself (not a registered check): selftest, clean-tree quick, mechanical
# refactoring fuzz (on a clean scratch copy), kept seeds must fire, kept refactorings must stay silent, thorough tiers.
# usage: tools/full_cycle.sh <logfile>
cd /verif
LOG=${1:-/tmp/full_cycle.log}
: > $LOG
/venv/bin/python -B -m hsa.selftest >> $LOG 2>&1
for i in $(seq -w 1 17; echo 19); do ./check C$i quick | tail -1 >> $LOG; done
rm -rf /tmp/repo_clean; git -C /repo worktree prune; cp -r /repo /tmp/repo_clean; rm -rf /tmp/repo_clean/.git
HSA_REPO=/tmp/repo_clean /venv/bin/python tools/refuzz.py --jobs 16 2>&1 | grep -v "^\.\.\." >> $LOG
/venv/bin/python tools/reeval_seeds.py 2>&1 | grep -v "detected_by \['" >> $LOG
/venv/bin/python tools/reeval_refactors.py 2>&1 | tail -5 >> $LOG
for i in $(seq -w 1 17; echo 19); do ./check C$i thorough > /tmp/th_$i.log 2>&1; echo "C$i rc=$? $(tail -1 /tmp/th_$i.log)" >> $LOG; done
echo DONE >> $LOG
