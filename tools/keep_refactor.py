#!/venv/bin/python
"""usage: tools/keep_refactor.py <agent_out_dir> <property> <n> <refactor-id>

Evaluates a behaviour-preserving refactoring written by a sub-agent and keeps it under /verif/refactors/<id>/:
  * scratch worktree of /repo HEAD: patch applies, test suite passes with it (worktree removed afterwards)
  * every quick check is run against the refactoring applied to /repo (and /repo is restored)
Every check should stay silent.  exit-1 verdicts are candidate false alarms (to be triaged by reading: either the
machinery is corrected, or the refactoring is shown to change behaviour), exit-2 verdicts are fragilities.
Writes patch.diff, notes.md (agent's) and meta.json.
"""
import json
import os
import shutil
import subprocess
import sys
import tempfile
import time

PROPS = ["C%02d" % i for i in list(range(1, 18)) + [19]]
VERIF = os.environ.get("HSA_VERIF_DIR", "/verif")


def sh(cmd, cwd=None, env=None, timeout=1800):
    e = dict(os.environ)
    e.update(env or {})
    r = subprocess.run(cmd, shell=True, cwd=cwd, env=e, capture_output=True, text=True, timeout=timeout)
    return r.returncode, (r.stdout + r.stderr)


def main():
    out, prop, n, rid = sys.argv[1:5]
    ch = os.path.join(out, "refactor" + n)
    patch = os.path.join(ch, "patch.diff")
    assert os.path.exists(patch), ch
    wt = tempfile.mkdtemp(prefix="refverify-")
    os.rmdir(wt)
    rc, o = sh("git -C /repo worktree add --detach %s HEAD -q" % wt)
    assert rc == 0, o
    meta = {"refactor": rid, "property": prop, "source": "independent sub-agent asked for behaviour-preserving refactorings",
            "repo_head": sh("git -C /repo rev-parse --short HEAD")[1].strip(), "ran": []}
    try:
        rc, o = sh("git apply %s" % patch, cwd=wt)
        assert rc == 0, "patch does not apply: " + o
        meta["files"] = sh("git diff --stat", cwd=wt)[1].strip().splitlines()[:-1]
        rct, ot = sh("/venv/bin/python -m pytest -q -p no:cacheprovider", cwd=wt, env={"PYTHONPATH": wt})
        meta["ran"].append({"cmd": "pytest with the refactoring", "rc": rct, "tail": ot.strip().splitlines()[-1:]})
        meta["tests_pass"] = rct == 0
    finally:
        sh("git -C /repo worktree remove --force %s" % wt)
    assert sh("git -C /repo status --porcelain")[1].strip() == "", "/repo not clean"
    verdicts = {}
    try:
        rc, o = sh("git -C /repo apply %s" % patch)
        assert rc == 0, o
        procs = {p: subprocess.Popen("./check %s quick" % p, shell=True, cwd=VERIF, stdout=subprocess.PIPE,
                                     stderr=subprocess.STDOUT, text=True) for p in PROPS}
        for p, pr in procs.items():
            o, _ = pr.communicate()
            keys, lines = [], o.splitlines()
            for i, l in enumerate(lines):
                if l.startswith("VIOLATION") and i + 1 < len(lines):
                    keys.append(" ".join(lines[i + 1].split())[:200])
                if l.startswith("ANALYSIS-ERROR"):
                    keys.append(l[:200])
            verdicts[p] = {"rc": pr.returncode, "reports": keys[:8]}
    finally:
        sh("git -C /repo checkout -- . && git -C /repo clean -fdq")
    meta["checks"] = {p: v for p, v in verdicts.items() if v["rc"] != 0}
    meta["violation_in"] = sorted(p for p, v in verdicts.items() if v["rc"] == 1)
    meta["analysis_error_in"] = sorted(p for p, v in verdicts.items() if v["rc"] == 2)
    meta["evaluated_at"] = time.strftime("%Y-%m-%dT%H:%M:%SZ", time.gmtime())
    meta["verif_commit"] = sh("git -C %s rev-parse --short HEAD" % VERIF)[1].strip()
    if "first_pass" not in meta:
        meta["first_pass"] = {"violation_in": meta["violation_in"], "analysis_error_in": meta["analysis_error_in"],
                              "verif_commit": meta["verif_commit"]}
    dst = os.path.join("/verif/refactors", rid)
    os.makedirs(dst, exist_ok=True)
    shutil.copy(patch, os.path.join(dst, "patch.diff"))
    if os.path.exists(os.path.join(ch, "notes.md")):
        shutil.copy(os.path.join(ch, "notes.md"), os.path.join(dst, "notes.md"))
    json.dump(meta, open(os.path.join(dst, "meta.json"), "w"), indent=1)
    print("%s tests_pass=%s violation_in=%s analysis_error_in=%s" % (rid, meta.get("tests_pass"), meta["violation_in"],
                                                                    meta["analysis_error_in"]))
    for p in meta["violation_in"] + meta["analysis_error_in"]:
        for k in verdicts[p]["reports"][:3]:
            print("   %s: %s" % (p, k))


if __name__ == "__main__":
    main()
