#!/venv/bin/python
"""Write the prompts for a round of *refactoring* sub-agents (false-alarm measurement).

usage: tools/gen_refactor_prompts.py <base dir, e.g. /tmp/sr> [property ...]

Each sub-agent gets ONLY the text of one property, its own scratch worktree <base>/cNN and an output directory.  It is
asked for behaviour-preserving refactorings of the code that implements the property.  Every check must stay silent on
them: a VIOLATION is a false alarm of the machinery, an ANALYSIS-ERROR a fragility.
"""
import json
import os
import subprocess
import sys

FAR = "--far" in sys.argv
_args = [a for a in sys.argv[1:] if not a.startswith("--")]
base = _args[0]
only = set(_args[1:])
props = {}
for l in open("/verif/properties.jsonl"):
    d = json.loads(l)
    props[d["id"]] = d
claimed = [c["property_id"] for c in json.load(open("/verif/MANIFEST.json"))["checks"]]
os.makedirs(base, exist_ok=True)

T = """You are a maintainer of an open-source project doing routine clean-up refactoring. Your refactorings must NOT change behaviour.

Repository: hephaestus (a Python program generator / typed IR / mutation framework that emits Java, Kotlin, Groovy and Scala programs to test compilers' type checkers). You have your OWN scratch git worktree of it at {wt} . Work ONLY inside {wt} and write your deliverables and ALL scratch files to {out} (nowhere else under /tmp). Do not read or touch /verif or /repo (off limits). No network. Do NOT use `git stash`; use `git -C {wt} diff > file`, `git -C {wt} checkout -- .` and `git -C {wt} apply file` instead.

How to run things: use /venv/bin/python with the worktree first on the path:
  cd {wt} && PYTHONPATH={wt} /venv/bin/python -m pytest -q -p no:cacheprovider      (161 tests, ~2 s, must still pass)
Check once that `import src; src.__file__` points into {wt}. hephaestus.py and src/args.py parse sys.argv at import time (set sys.argv before importing them). Other people share this machine: no long scans.

The code you refactor is the code that implements this property of the system (read it to find the functions involved; the anchors name files and mechanisms):

  {pid} - {title}
  {statement}
  Code areas involved: {files}
  Mechanisms: {mech}

Your task: produce FOUR DIFFERENT, INDEPENDENT behaviour-preserving refactorings (each its own patch against the clean worktree) of {target} Each should be a realistic clean-up of 5-40 changed lines that a reviewer would accept, and each should use a DIFFERENT technique from this list:
  - extract a helper function or method from a block, or inline a small helper into its only caller
  - introduce an explaining local variable for a sub-expression, or inline a single-use local
  - rename locals / parameters / a private helper consistently
  - restructure control flow without changing it: invert an if/else, turn nested ifs into one condition or split a condition into nested ifs, early return instead of else, `elif` chains vs separate ifs where the branches are exclusive
  - replace a loop that builds a list by a comprehension, or the reverse
  - reorder statements or definitions that are independent of each other
  - replace positional by keyword arguments at call sites (or the reverse), add type annotations / docstrings / comments
  - replace `x == None`-style or `len(x) == 0`-style tests by the idiomatic equivalent where the types guarantee equivalence
For EACH refactoring:
  1. the code still imports and the existing test suite (161 tests) passes unchanged;
  2. behaviour is IDENTICAL for every input, every random seed and every option (same results, same mutations of the same objects, same order of random draws, same output text); be careful with evaluation order, short-circuiting, aliasing and the number/order of calls to the random generator;
  3. write a short equivalence argument, and where cheap a small script that compares old and new behaviour on a few inputs.

Earlier clean-ups by other people already did the following in this area - do something DIFFERENT: other blocks of the same central functions or other central functions of the property, and other techniques or combinations of techniques (e.g. extract a helper AND restructure its control flow, move a block into a new module-level function, merge two helpers, change a helper's parameter list, replace an index loop by zip/enumerate, turn an if-chain into a dict lookup or vice versa where equivalent):
{earlier}

Deliverables, for i in 1..4:
  {out}/refactor{{i}}/patch.diff   - `git -C {wt} diff` for that refactoring alone
  {out}/refactor{{i}}/notes.md     - technique used, functions touched, equivalence argument (5-10 lines)
Leave the worktree clean when you are done. Verify each patch applies to the clean worktree and the tests pass with it.
In your final answer give ONLY one line per refactoring: file/function touched and the technique.
"""

for pid in claimed:
    if only and pid not in only:
        continue
    d = props[pid]
    n = pid[1:].lower()
    wt, out = "%s/c%s" % (base, n), "%s/out_c%s" % (base, n)
    if not os.path.isdir(wt):
        subprocess.check_call(["git", "-C", "/repo", "worktree", "add", "-q", "--detach", wt])
    os.makedirs(out, exist_ok=True)
    import glob
    earlier = []
    for np_ in sorted(glob.glob("/verif/refactors/%s-r*/notes.md" % pid)):
        lines = [l.strip() for l in open(np_).read().splitlines() if l.strip()]
        title = lines[0].lstrip("# ").strip() if lines else ""
        fn = next((l for l in lines[1:6] if l.lower().startswith(("function", "functions"))), "")
        earlier.append("  - %s%s" % (title[:120], (" (" + fn[:140] + ")") if fn else ""))
    mech = "; ".join("%s (%s)" % (m["name"], m["where"]) for m in d["anchors"].get("mechanism", []))
    target = "functions that implement the property above - the central ones, not peripheral code."
    if FAR:
        target = ("the SUPPORTING code that the central functions of the property above call or rely on, NOT the central "
                  "functions themselves: callees several calls down, constructors (__init__), dunder methods (__eq__, "
                  "__hash__, __str__), small predicates and accessors of the type representation in src/ir/types.py "
                  "(has_type_variables, is_*, get_bound_rec, get_name, ...), the built-in type modules of the four languages "
                  "(src/ir/*_types.py), shared helpers (src/utils.py), base classes (src/transformations/base.py, "
                  "src/compilers/base.py, src/translators/base.py), helpers of the IR in src/ir/ast.py (Program.get_types, "
                  "get_abstract_functions, get_callable_functions, get_all_fields, Operator), src/ir/type_utils.py helpers "
                  "(get_type_hint, get_decl_from_inheritance, _get_available_types, ...) - whichever of these the "
                  "property's code really depends on.")
    open("%s/prompt_c%s.txt" % (base, n), "w").write(T.format(target=target, 
        wt=wt, out=out, pid=pid, title=d["title"], statement=d["statement"],
        files=", ".join(d["anchors"]["files"]), mech=mech, earlier="\n".join(earlier) or "  (none)"))
    print(pid, wt)
