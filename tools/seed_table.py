#!/venv/bin/python
"""Render the table of kept seeded changes (DESIGN.md section 10) from /verif/seeded/*/meta.json."""
import glob, json, os
rows = []
for p in sorted(glob.glob("/verif/seeded/*/meta.json")):
    m = json.load(open(p))
    files = "; ".join(f.split("|")[0].strip() for f in m.get("files", []))
    det = []
    for prop in m.get("detected_by", []):
        rules = sorted({r.split()[1] for r in m["checks"][prop]["reports"] if r.startswith("rule ")})
        det.append("%s (%s)" % (prop, ", ".join(rules)))
    ae = m.get("analysis_error_in", [])
    rows.append("| %s | %s | %s | %s | %s |" % (m["seed"], files, m["needs"], "; ".join(det) or "**not detected**",
                                               ", ".join(ae) or "-"))
print("| seed | files | what it needs to manifest | caught by (VIOLATION) | exit 2 in |")
print("|---|---|---|---|---|")
print("\n".join(rows))
