#!/venv/bin/python
"""usage: tools/keep_seed.py <agent_out_dir> <property> <n> <seed-id> "<what it needs to manifest>"

Confirms a seeded change written by a sub-agent and keeps it under /verif/seeded/<seed-id>/:
  * scratch worktree of /repo HEAD (removed afterwards)
  * demo on the clean tree must exit 0, tests must pass with the change, demo with the change must exit != 0
  * every quick check is run against the change applied to /repo (and /repo is restored)
Writes patch.diff, demo.py, notes.md (agent's) and meta.json.
"""
import json
import os
import shutil
import subprocess
import sys
import tempfile
import time

PROPS = ["C%02d" % i for i in list(range(1, 18)) + [19]]
# HSA_VERIF_DIR: run the checks of another checkout of /verif (a worktree frozen before a held-out seeding round)
VERIF = os.environ.get("HSA_VERIF_DIR", "/verif")


def sh(cmd, cwd=None, env=None, timeout=1800):
    e = dict(os.environ)
    e.update(env or {})
    r = subprocess.run(cmd, shell=True, cwd=cwd, env=e, capture_output=True, text=True, timeout=timeout)
    return r.returncode, (r.stdout + r.stderr)


def main():
    out, prop, n, sid, needs = sys.argv[1:6]
    ch = os.path.join(out, "change" + n)
    patch = os.path.join(ch, "patch.diff")
    demo = os.path.join(ch, "demo.py")
    assert os.path.exists(patch) and os.path.exists(demo), ch
    wt = tempfile.mkdtemp(prefix="seedverify-")
    os.rmdir(wt)
    rc, o = sh("git -C /repo worktree add --detach %s HEAD -q" % wt)
    assert rc == 0, o
    meta = {"seed": sid, "property": prop, "needs": needs, "source": "independent sub-agent given only the property text",
            "repo_head": sh("git -C /repo rev-parse --short HEAD")[1].strip(), "ran": []}
    try:
        env = {"HSA_REPO": wt, "PYTHONPATH": wt, "PYTHONHASHSEED": "0"}
        rc0, o0 = sh("/venv/bin/python %s" % demo, cwd=wt, env=env)
        meta["ran"].append({"cmd": "demo.py on the clean tree", "rc": rc0, "tail": o0.strip().splitlines()[-1:]})
        rc, o = sh("git apply %s" % patch, cwd=wt)
        assert rc == 0, "patch does not apply: " + o
        meta["files"] = sh("git diff --stat", cwd=wt)[1].strip().splitlines()[:-1]
        rct, ot = sh("/venv/bin/python -m pytest -q -p no:cacheprovider", cwd=wt, env={"PYTHONPATH": wt})
        meta["ran"].append({"cmd": "pytest with the change", "rc": rct, "tail": ot.strip().splitlines()[-1:]})
        rc1, o1 = sh("/venv/bin/python %s" % demo, cwd=wt, env=env)
        meta["ran"].append({"cmd": "demo.py with the change", "rc": rc1, "tail": o1.strip().splitlines()[-1:]})
        meta["confirmed"] = (rc0 == 0 and rct == 0 and rc1 != 0)
    finally:
        sh("git -C /repo worktree remove --force %s" % wt)
    # checks against the change
    assert sh("git -C /repo status --porcelain")[1].strip() == "", "/repo not clean"
    verdicts = {}
    try:
        rc, o = sh("git -C /repo apply %s" % patch)
        assert rc == 0, o
        procs = {p: subprocess.Popen("./check %s quick" % p, shell=True, cwd=VERIF, stdout=subprocess.PIPE,
                                     stderr=subprocess.STDOUT, text=True) for p in PROPS}
        for p, pr in procs.items():
            o, _ = pr.communicate()
            keys = []
            lines = o.splitlines()
            for i, l in enumerate(lines):
                if l.startswith("VIOLATION") and i + 1 < len(lines):
                    keys.append(" ".join(lines[i + 1].split())[:160])
                if l.startswith("ANALYSIS-ERROR"):
                    keys.append(l[:160])
            verdicts[p] = {"rc": pr.returncode, "reports": keys[:6]}
    finally:
        sh("git -C /repo checkout -- . && git -C /repo clean -fdq")
    meta["checks"] = {p: v for p, v in verdicts.items() if v["rc"] != 0}
    meta["detected_by"] = sorted(p for p, v in verdicts.items() if v["rc"] == 1)
    meta["analysis_error_in"] = sorted(p for p, v in verdicts.items() if v["rc"] == 2)
    meta["silent"] = sorted(p for p, v in verdicts.items() if v["rc"] == 0)
    meta["evaluated_at"] = time.strftime("%Y-%m-%dT%H:%M:%SZ", time.gmtime())
    meta["verif_commit"] = sh("git -C %s rev-parse --short HEAD" % VERIF)[1].strip()
    if VERIF != "/verif":
        meta["first_pass"] = {"detected_by": meta["detected_by"], "analysis_error_in": meta["analysis_error_in"],
                              "verif_commit": meta["verif_commit"], "note": "held-out: checks frozen before the round"}
    dst = os.path.join("/verif/seeded", sid)
    os.makedirs(dst, exist_ok=True)
    shutil.copy(patch, os.path.join(dst, "patch.diff"))
    shutil.copy(demo, os.path.join(dst, "demo.py"))
    if os.path.exists(os.path.join(ch, "notes.md")):
        shutil.copy(os.path.join(ch, "notes.md"), os.path.join(dst, "notes.md"))
    json.dump(meta, open(os.path.join(dst, "meta.json"), "w"), indent=1)
    print("%s confirmed=%s detected_by=%s analysis_error_in=%s" % (sid, meta.get("confirmed"), meta["detected_by"],
                                                                  meta["analysis_error_in"]))
    for p in meta["detected_by"] + meta["analysis_error_in"]:
        for k in verdicts[p]["reports"][:2]:
            print("   %s: %s" % (p, k))


if __name__ == "__main__":
    main()
