#!/venv/bin/python
"""usage: tools/refuzz_one.py <relpath> <Class.func|func> <kind> [property]  - show one fuzz variant (diff) and what fires"""
import os, sys, difflib, ast
sys.path.insert(0, "/verif"); sys.path.insert(0, "/verif/tools")
os.environ.setdefault("HSA_REPO", "/tmp/repo_clean")
import refuzz
rel, qual, kind = sys.argv[1:4]
mod = rel[:-3].replace("/", ".")
if kind == "keywords":
    refuzz.build_kw_table()
new = refuzz.make_variant(rel, mod, qual, kind)
old = ast.unparse(ast.parse(open(os.path.join(refuzz.ROOT, rel)).read()))
for l in difflib.unified_diff(old.splitlines(), new.splitlines(), lineterm="", n=2):
    print(l)
if os.environ.get("SHOW_NORM"):
    from hsa import variants as V
    from hsa.repo import Repo
    sc = V.make_scratch(refuzz.ROOT, {rel: new})
    os.environ["HSA_REPO"] = str(sc)
    rp = Repo(sc)
    m = rp.module(mod)
    print("NORMALIZED", m.normalized)
    for n in ast.walk(m.tree):
        if isinstance(n, ast.FunctionDef) and n.name == qual.split(".")[-1]:
            print(ast.unparse(n))
    V.drop_scratch(sc)
    os.environ["HSA_REPO"] = refuzz.ROOT
r = refuzz.run_variant((rel, mod, qual, kind))
for x in r.get("fired", []) + r.get("errors", []):
    print("FIRED", x[:3] if len(x) > 3 else x)
    if len(x) > 3: print("      ", str(x[3])[:600])
