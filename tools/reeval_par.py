#!/venv/bin/python
"""Parallel re-evaluation of every kept seeded change and every kept refactoring on scratch copies (/repo is not touched).

usage: tools/reeval_par.py [--seeds] [--refactors] [--jobs N] [--write] [id ...]

Each patch is applied to a scratch copy of the current /repo working tree; the rules of all claimed properties are run on
it in-process (same code path as ./check, without evidence files).  With --write the metas are refreshed exactly as
tools/reeval_seeds.py / tools/reeval_refactors.py do.  Prints REGRESSION for a seed that an earlier version reported and
this one does not, and NOT-SILENT for a refactoring with a verdict other than exit 0.
"""
import glob
import json
import os
import re
import subprocess
import sys
import time
from concurrent.futures import ProcessPoolExecutor

sys.path.insert(0, "/verif")
PROPS = ["C%02d" % i for i in list(range(1, 18)) + [19]]


def work(job):
    kind, sid, root = job
    from hsa import cli, report
    from hsa.repo import Repo
    from hsa.variants import make_scratch, drop_scratch
    patch = os.path.join("/verif", "seeded" if kind == "seed" else "refactors", sid, "patch.diff")
    text = open(patch).read()
    touched = sorted(set(re.findall(r"^\+\+\+ b/(\S+)", text, re.M)) | set(re.findall(r"^--- a/(\S+)", text, re.M)))
    rewritten = {}
    for rel in touched:
        pth = os.path.join(root, rel)
        rewritten[rel] = open(pth).read() if os.path.exists(pth) else ""
    scratch = make_scratch(root, rewritten)
    out = {"id": sid, "kind": kind, "verdicts": {}}
    try:
        r = subprocess.run(["git", "apply", "-p1", patch], cwd=str(scratch), capture_output=True, text=True)
        if r.returncode != 0:
            out["error"] = "patch does not apply: " + r.stderr.strip()[:200]
            return out
        os.environ["HSA_REPO"] = str(scratch)
        repo = Repo(scratch)
        known = report.load_known()
        for pid in PROPS:
            mod = cli.load_prop(pid)
            try:
                obs, _s, errors = cli.run_rules(mod, repo, None)
            except Exception as e:
                out["verdicts"][pid] = {"rc": 2, "reports": ["crash %r" % e]}
                continue
            viol = [o for o in obs if not o.ok and not report.match_known(pid, o, known)]
            rc = 1 if viol else (2 if errors else 0)
            if rc:
                reps = ["rule %s %s %s" % (o.rule, o.where, o.key) for o in viol][:6] + \
                    ["ANALYSIS-ERROR property=%s rule=%s %s" % (pid, e[0], str(e[2])[:120]) for e in errors][:3]
                out["verdicts"][pid] = {"rc": rc, "reports": [x[:160] for x in reps]}
            else:
                out["verdicts"][pid] = {"rc": 0, "reports": []}
    finally:
        drop_scratch(scratch)
    return out


def main():
    args = sys.argv[1:]
    jobs_n = 14
    if "--jobs" in args:
        jobs_n = int(args[args.index("--jobs") + 1])
    write = "--write" in args
    ids = {a for a in args if not a.startswith("--") and not a.isdigit()}
    kinds = [k for k in ("seeds", "refactors") if "--" + k in args] or ["seeds", "refactors"]
    root = os.environ.get("HSA_REPO", "/repo")
    jobs = []
    if "seeds" in kinds:
        jobs += [("seed", os.path.basename(os.path.dirname(p)), root) for p in sorted(glob.glob("/verif/seeded/*/meta.json"))]
    if "refactors" in kinds:
        jobs += [("refactor", os.path.basename(os.path.dirname(p)), root)
                 for p in sorted(glob.glob("/verif/refactors/*/meta.json"))]
    if ids:
        jobs = [j for j in jobs if j[1] in ids]
    head = subprocess.run("git -C /verif rev-parse --short HEAD", shell=True, capture_output=True, text=True).stdout.strip()
    t0 = time.time()
    n_seed = n_det = n_ref = n_loud = 0
    with ProcessPoolExecutor(max_workers=jobs_n) as ex:
        for res in ex.map(work, jobs, chunksize=1):
            sid, kind, v = res["id"], res["kind"], res["verdicts"]
            mp = os.path.join("/verif", "seeded" if kind == "seed" else "refactors", sid, "meta.json")
            m = json.load(open(mp))
            if "error" in res:
                print("ERROR", sid, res["error"], flush=True)
                continue
            det = sorted(p for p, x in v.items() if x["rc"] == 1)
            err = sorted(p for p, x in v.items() if x["rc"] == 2)
            if kind == "seed":
                n_seed += 1
                n_det += 1 if det else 0
                prev = set(m.get("ever_detected_by", [])) | set(m.get("detected_by", []))
                lost = sorted(prev - set(det))
                if lost:
                    print("REGRESSION %s no longer reported by %s" % (sid, lost), flush=True)
                if not det:
                    print("not detected: %s (exit 2 in %s)" % (sid, err), flush=True)
                if write:
                    m["checks"] = {p: x for p, x in v.items() if x["rc"] != 0}
                    m["detected_by"] = det
                    m["ever_detected_by"] = sorted(prev | set(det))
                    m["analysis_error_in"] = err
                    m["silent"] = sorted(p for p, x in v.items() if x["rc"] == 0)
                    m["evaluated_at"] = time.strftime("%Y-%m-%dT%H:%M:%SZ", time.gmtime())
                    m["verif_commit"] = head
                    json.dump(m, open(mp, "w"), indent=1)
            else:
                n_ref += 1
                expected = m.get("shape_unknown_expected") and not det and \
                    all("shape unknown" in " ".join(v[p]["reports"]) for p in err)
                if (det or err) and not expected:
                    n_loud += 1
                    print("NOT-SILENT %s violation_in=%s analysis_error_in=%s %s" % (
                        sid, det, err, [v[p]["reports"][:1] for p in det + err]), flush=True)
                if write:
                    m["checks"] = {p: x for p, x in v.items() if x["rc"] != 0}
                    m["violation_in"] = det
                    m["analysis_error_in"] = err
                    m["evaluated_at"] = time.strftime("%Y-%m-%dT%H:%M:%SZ", time.gmtime())
                    m["verif_commit"] = head
                    m.pop("current", None)
                    json.dump(m, open(mp, "w"), indent=1)
    print("seeds: %d, reported by some check: %d; refactorings: %d, not silent: %d; %.0fs"
          % (n_seed, n_det, n_ref, n_loud, time.time() - t0))


if __name__ == "__main__":
    main()
