#!/venv/bin/python
"""Regenerate hsa/canon.json (reference local names by definition shape) from the current /repo tree.
Run after every commit to /repo that is made by the verification work (fix: commits)."""
import ast, json, os, sys
sys.path.insert(0, os.path.join(os.path.dirname(os.path.abspath(__file__)), ".."))
os.environ["HSA_NO_CANON"] = "1"
from hsa import canon, normalize
from hsa.repo import Repo
r = Repo(os.environ.get("HSA_REPO", "/repo"))
tab = {"__ref__": {}}
n = 0
for name, m in sorted(r.modules.items()):
    t = canon.table_of(ast.parse(m.source), name)
    if t:
        tab[name] = t
        n += sum(len(v) for v in t.values())
    tab["__ref__"][name] = normalize.reference_facts(ast.parse(m.source), name)
json.dump(tab, open(canon.TABLE, "w"), indent=0, sort_keys=True)
print("canon.json: %d modules, %d locals" % (len(tab), n))
