#!/venv/bin/python
"""Mechanical refactoring fuzzer: behaviour-preserving rewrites, one function and one technique at a time, on scratch
copies of /repo; every check must stay silent on every variant.

usage: tools/refuzz.py [--kinds k1,k2,..] [--modules m1,m2,..] [--functions substr] [--jobs 16] [--limit N] [--out file]

Techniques (all semantics-preserving by construction):
  invert      if T: A else: B            ->  if not T: B else: A                       (every if/else that is no elif chain)
  unelse      if T: A(leaves) else: B    ->  if T: A ; B
  enelse      if T: A(leaves) ; rest     ->  if T: A else: rest
  merge       if a: if b: X              ->  if a and b: X
  split       if a and b: X              ->  if a: if b: X
  explain     f(.., <pure expr>, ..)     ->  _ev = <pure expr> ; f(.., _ev, ..)        (first argument that is an attribute /
                                                                                       subscript chain or a pure call)
  unloop      x = [e for ..]             ->  x = [] ; for ..: x.append(e)
  reloop      x = [] ; for ..: x.append  ->  x = [e for ..]
  keywords    f(a, b)                    ->  f(p=a, q=b)  for callees resolved in the repository
  docstring   a docstring on every function of the module

The deciding machinery is not involved in producing the variants; it is only run on them (`hsa.cli.run_rules` for all
17 properties).  Output: one line per variant that is not silent, with the obligations that fire.
"""
import argparse
import ast
import copy
import json
import os
import sys
import time
from concurrent.futures import ProcessPoolExecutor

sys.path.insert(0, "/verif")
ROOT = os.environ.get("HSA_REPO", "/repo")


# ------------------------------------------------------------------------------------------------ transformations

def always_leaves(block):
    if not block:
        return False
    last = block[-1]
    if isinstance(last, (ast.Return, ast.Continue, ast.Break, ast.Raise)):
        return True
    if isinstance(last, ast.If):
        return bool(last.orelse) and always_leaves(last.body) and always_leaves(last.orelse)
    return False


def blocks_of(fn):
    """every statement list inside fn (not entering nested defs)"""
    out = []
    todo = [fn]
    while todo:
        n = todo.pop()
        for name in ("body", "orelse", "finalbody"):
            blk = getattr(n, name, None)
            if isinstance(blk, list) and blk and isinstance(blk[0], ast.stmt):
                out.append(blk)
                for s in blk:
                    if not isinstance(s, (ast.FunctionDef, ast.AsyncFunctionDef, ast.ClassDef)):
                        todo.append(s)
        if isinstance(n, ast.Try):
            for h in n.handlers:
                out.append(h.body)
                todo.extend(h.body)
    return out


def neg(t):
    if isinstance(t, ast.UnaryOp) and isinstance(t.op, ast.Not):
        return t.operand
    return ast.UnaryOp(op=ast.Not(), operand=t)


def k_invert(fn):
    n = 0
    for blk in blocks_of(fn):
        for s in blk:
            if isinstance(s, ast.If) and s.orelse and not (len(s.orelse) == 1 and isinstance(s.orelse[0], ast.If)):
                s.test, s.body, s.orelse = neg(s.test), s.orelse, s.body
                n += 1
    return n


def k_unelse(fn):
    n = 0
    for blk in blocks_of(fn):
        i = 0
        while i < len(blk):
            s = blk[i]
            if isinstance(s, ast.If) and s.orelse and always_leaves(s.body) and \
                    not (len(s.orelse) == 1 and isinstance(s.orelse[0], ast.If)):
                rest, s.orelse = s.orelse, []
                blk[i + 1:i + 1] = rest
                n += 1
            i += 1
    return n


def k_enelse(fn):
    n = 0
    for blk in blocks_of(fn):
        for i, s in enumerate(blk):
            if isinstance(s, ast.If) and not s.orelse and always_leaves(s.body) and i < len(blk) - 1:
                s.orelse = blk[i + 1:]
                del blk[i + 1:]
                n += 1
                break
    return n


def k_merge(fn):
    n = 0
    for blk in blocks_of(fn):
        for s in blk:
            if isinstance(s, ast.If) and not s.orelse and len(s.body) == 1 and isinstance(s.body[0], ast.If) and \
                    not s.body[0].orelse:
                inner = s.body[0]
                s.test = ast.BoolOp(op=ast.And(), values=[s.test, inner.test])
                s.body = inner.body
                n += 1
    return n


def k_split(fn):
    n = 0
    for blk in blocks_of(fn):
        for s in blk:
            if isinstance(s, ast.If) and not s.orelse and isinstance(s.test, ast.BoolOp) and \
                    isinstance(s.test.op, ast.And) and len(s.test.values) >= 2:
                first, rest = s.test.values[0], s.test.values[1:]
                inner = ast.If(test=rest[0] if len(rest) == 1 else ast.BoolOp(op=ast.And(), values=rest),
                               body=s.body, orelse=[])
                s.test, s.body = first, [inner]
                n += 1
    return n


PURE_FUNCS = {"os.path.join", "str", "len", "isinstance", "type", "getattr", "hasattr"}


def is_pure(e):
    for n in ast.walk(e):
        if isinstance(n, ast.Call):
            f = ast.unparse(n.func)
            if not (f in PURE_FUNCS or (isinstance(n.func, ast.Attribute) and
                                        (n.func.attr.startswith(("is_", "has_")) or n.func.attr in ("startswith", "get_type")))):
                return False
        if isinstance(n, (ast.Lambda, ast.ListComp, ast.SetComp, ast.DictComp, ast.GeneratorExp, ast.NamedExpr,
                          ast.Starred, ast.Yield, ast.Await, ast.IfExp)):
            return False
    return True


def k_explain(fn):
    n = 0
    names = {x.id for x in ast.walk(fn) if isinstance(x, ast.Name)}
    for blk in blocks_of(fn):
        i = 0
        while i < len(blk):
            s = blk[i]
            call = None
            if isinstance(s, ast.Expr) and isinstance(s.value, ast.Call):
                call = s.value
            elif isinstance(s, (ast.Assign, ast.Return)) and isinstance(s.value, ast.Call):
                call = s.value
            if call is not None and not any(isinstance(a, ast.Starred) for a in call.args):
                # the receiver / function expression and earlier arguments are evaluated before the chosen argument:
                # only hoist the first argument, and only if the function expression is a plain name / attribute chain
                if call.args and is_pure(call.args[0]) and isinstance(call.args[0], (ast.Attribute, ast.Subscript, ast.Call)) \
                        and is_pure(call.func) and not any(isinstance(x, ast.Call) for x in ast.walk(call.func)):
                    tmp = "_ev%d" % n
                    while tmp in names:
                        tmp += "_"
                    names.add(tmp)
                    pre = ast.Assign(targets=[ast.Name(id=tmp, ctx=ast.Store())], value=call.args[0])
                    call.args[0] = ast.Name(id=tmp, ctx=ast.Load())
                    blk.insert(i, pre)
                    i += 1
                    n += 1
            i += 1
    return n


def k_unloop(fn):
    n = 0
    bound = {x.id for x in ast.walk(fn) if isinstance(x, ast.Name) and isinstance(x.ctx, ast.Store)} | \
        {a.arg for a in fn.args.args + fn.args.kwonlyargs}
    for blk in blocks_of(fn):
        i = 0
        while i < len(blk):
            s = blk[i]
            if isinstance(s, ast.Assign) and len(s.targets) == 1 and isinstance(s.targets[0], ast.Name) and \
                    isinstance(s.value, ast.ListComp):
                c = s.value
                tgts = {x.id for g in c.generators for x in ast.walk(g.target) if isinstance(x, ast.Name)}
                x = s.targets[0].id
                used_outside = any(isinstance(y, ast.Name) and y.id in tgts and not any(y is z for z in ast.walk(c))
                                   for y in ast.walk(fn))
                if not used_outside and x not in {y.id for y in ast.walk(c) if isinstance(y, ast.Name)}:
                    body = [ast.Expr(value=ast.Call(func=ast.Attribute(value=ast.Name(id=x, ctx=ast.Load()), attr="append",
                                                                       ctx=ast.Load()), args=[c.elt], keywords=[]))]
                    for g in reversed(c.generators):
                        for cond in reversed(g.ifs):
                            body = [ast.If(test=cond, body=body, orelse=[])]
                        t = copy.deepcopy(g.target)
                        for y in ast.walk(t):
                            if hasattr(y, "ctx"):
                                y.ctx = ast.Store()
                        body = [ast.For(target=t, iter=g.iter, body=body, orelse=[])]
                    blk[i:i + 1] = [ast.Assign(targets=[ast.Name(id=x, ctx=ast.Store())],
                                               value=ast.List(elts=[], ctx=ast.Load()))] + body
                    n += 1
                    i += 2
                    continue
            i += 1
    return n


def k_reloop(fn):
    n = 0
    for blk in blocks_of(fn):
        i = 0
        while i < len(blk) - 1:
            s, nx = blk[i], blk[i + 1]
            if isinstance(s, ast.Assign) and len(s.targets) == 1 and isinstance(s.targets[0], ast.Name) and \
                    isinstance(s.value, ast.List) and not s.value.elts and isinstance(nx, ast.For) and not nx.orelse:
                x = s.targets[0].id
                body, conds = nx.body, []
                while len(body) == 1 and isinstance(body[0], ast.If) and not body[0].orelse:
                    conds.append(body[0].test)
                    body = body[0].body
                if len(body) == 1 and isinstance(body[0], ast.Expr) and isinstance(body[0].value, ast.Call) and \
                        ast.unparse(body[0].value.func) == x + ".append" and len(body[0].value.args) == 1 and \
                        x not in {y.id for y in ast.walk(nx.iter) if isinstance(y, ast.Name)} and \
                        x not in {y.id for c in conds for y in ast.walk(c) if isinstance(y, ast.Name)} and \
                        x not in {y.id for y in ast.walk(body[0].value.args[0]) if isinstance(y, ast.Name)}:
                    tnames = {y.id for y in ast.walk(nx.target) if isinstance(y, ast.Name)}
                    after = any(isinstance(y, ast.Name) and y.id in tnames for st in blk[i + 2:] for y in ast.walk(st))
                    if not after:
                        comp = ast.ListComp(elt=body[0].value.args[0], generators=[ast.comprehension(
                            target=nx.target, iter=nx.iter, ifs=conds, is_async=0)])
                        blk[i:i + 2] = [ast.Assign(targets=[ast.Name(id=x, ctx=ast.Store())], value=comp)]
                        n += 1
            i += 1
    return n


def k_docstring(fn):
    if not (fn.body and isinstance(fn.body[0], ast.Expr) and isinstance(fn.body[0].value, ast.Constant) and
            isinstance(fn.body[0].value.value, str)):
        fn.body.insert(0, ast.Expr(value=ast.Constant(value="Documented by the refactoring fuzzer.")))
        return 1
    return 0


def _names(nodes, ctx):
    out = []
    for n in nodes:
        for x in ast.walk(n):
            if isinstance(x, ast.Name) and isinstance(x.ctx, ctx):
                out.append(x)
    return out


def _extract_candidates(fn):
    """(block list, i, j): statements blk[i:j] (2..5 of them) that can become a helper: no return / break / continue /
    yield / nested def / global / del of a name inside, and no lambda or comprehension captures a name the block binds"""
    local = {a.arg for a in fn.args.posonlyargs + fn.args.args + fn.args.kwonlyargs}
    if fn.args.vararg:
        local.add(fn.args.vararg.arg)
    if fn.args.kwarg:
        local.add(fn.args.kwarg.arg)
    local |= {x.id for x in ast.walk(fn) if isinstance(x, ast.Name) and isinstance(x.ctx, ast.Store)}
    cands = []
    for blk in blocks_of(fn):
        for size in (4, 3, 2):
            for i in range(0, len(blk) - size + 1):
                sub_ = blk[i:i + size]
                bad = False
                for s_ in sub_:
                    for x in ast.walk(s_):
                        if isinstance(x, (ast.Return, ast.Break, ast.Continue, ast.Yield, ast.YieldFrom, ast.Await,
                                          ast.FunctionDef, ast.AsyncFunctionDef, ast.ClassDef, ast.Global, ast.Nonlocal,
                                          ast.Delete, ast.Lambda, ast.NamedExpr, ast.Import, ast.ImportFrom)):
                            bad = True
                if bad:
                    continue
                if all(isinstance(s_, ast.Expr) and isinstance(s_.value, ast.Constant) for s_ in sub_):
                    continue
                if any(isinstance(x, ast.Call) and isinstance(x.func, ast.Name) and x.func.id == "super" and not x.args
                       for s_ in sub_ for x in ast.walk(s_)):
                    continue      # zero-argument super() only works inside the class body
                cands.append((blk, i, i + size))
    return cands, local


def _do_extract(fn, tree_body, which):
    cands, local = _extract_candidates(fn)
    if not cands:
        return 0
    blk, i, j = cands[0] if which == 0 else cands[-1]
    sub_ = blk[i:j]
    inside = {id(x) for s_ in sub_ for x in ast.walk(s_)}
    stores = [x.id for x in _names(sub_, ast.Store)]
    # reads: local names loaded in the block (conservatively all of them, also those written first)
    reads = []
    for x in _names(sub_, ast.Load):
        if x.id in local and x.id not in reads:
            reads.append(x.id)
    # comprehension targets are not function locals
    comp_t = {y.id for s_ in sub_ for c in ast.walk(s_) if isinstance(c, ast.comprehension) for y in ast.walk(c.target)
              if isinstance(y, ast.Name)}
    comp_nodes = {id(y) for s_ in sub_ for c in ast.walk(s_) if isinstance(c, ast.comprehension) for y in ast.walk(c.target)}
    stores = [x.id for x in _names(sub_, ast.Store) if id(x) not in comp_nodes]
    # a name both written in the block and read anywhere outside it is an output
    outside_loads = {x.id for x in ast.walk(fn) if isinstance(x, ast.Name) and isinstance(x.ctx, ast.Load)
                     and id(x) not in inside}
    outs = []
    for s_ in stores:
        if s_ in outside_loads and s_ not in outs:
            outs.append(s_)
    # a written name that is also an input must exist before the call; if it might not (first binding happens inside the
    # block), passing it would raise: only pass names that are bound before the block on every path - approximated by
    # "has a store or is a parameter textually before the block"
    first_line = sub_[0].lineno
    params = {a.arg for a in fn.args.posonlyargs + fn.args.args + fn.args.kwonlyargs}
    bound_before = params | {x.id for x in ast.walk(fn) if isinstance(x, ast.Name) and isinstance(x.ctx, ast.Store)
                             and x.lineno < first_line and id(x) not in inside}
    if any(r not in bound_before for r in reads):
        # names first bound inside the block and read later inside it are plain helper locals: drop them from the inputs
        reads = [r for r in reads if r in bound_before]
        for x in _names(sub_, ast.Load):
            if x.id in local and x.id not in bound_before and x.id not in stores:
                return 0
    hname = "_refuzz_helper"
    ret = None
    if len(outs) == 1:
        ret = ast.Return(value=ast.Name(id=outs[0], ctx=ast.Load()))
    elif outs:
        ret = ast.Return(value=ast.Tuple(elts=[ast.Name(id=o, ctx=ast.Load()) for o in outs], ctx=ast.Load()))
    helper = ast.FunctionDef(name=hname, args=ast.arguments(posonlyargs=[], args=[ast.arg(arg=r) for r in reads],
                                                            kwonlyargs=[], kw_defaults=[], defaults=[]),
                             body=list(sub_) + ([ret] if ret else []), decorator_list=[], type_params=[])
    call = ast.Call(func=ast.Name(id=hname, ctx=ast.Load()), args=[ast.Name(id=r, ctx=ast.Load()) for r in reads],
                    keywords=[])
    if not outs:
        new = ast.Expr(value=call)
    elif len(outs) == 1:
        new = ast.Assign(targets=[ast.Name(id=outs[0], ctx=ast.Store())], value=call)
    else:
        new = ast.Assign(targets=[ast.Tuple(elts=[ast.Name(id=o, ctx=ast.Store()) for o in outs], ctx=ast.Store())],
                         value=call)
    blk[i:j] = [new]
    tree_body.append(helper)
    return 1


KW_TABLE = None


def k_keywords(fn, modname=None):
    """positional -> keyword arguments, using callee signatures resolved on the clean tree"""
    global KW_TABLE
    if KW_TABLE is None:
        KW_TABLE = json.load(open("/tmp/refuzz_kw.json")) if os.path.exists("/tmp/refuzz_kw.json") else {}
    n = 0
    for c in [x for x in ast.walk(fn) if isinstance(x, ast.Call)]:
        key = "%s:%d:%d" % (modname, getattr(c, "lineno", 0), getattr(c, "col_offset", 0))
        params = KW_TABLE.get(key)
        if not params or any(isinstance(a, ast.Starred) for a in c.args) or len(c.args) > len(params) or len(c.args) < 2:
            continue
        # keep the first argument positional, name the rest
        new_kw = [ast.keyword(arg=params[i], value=a) for i, a in enumerate(c.args) if i >= 1]
        if any(k.arg in {x.arg for x in c.keywords} for k in new_kw):
            continue
        c.args = c.args[:1]
        c.keywords = new_kw + c.keywords
        n += 1
    return n


KINDS = {"extract": None, "extract2": None, "invert": k_invert, "unelse": k_unelse, "enelse": k_enelse, "merge": k_merge, "split": k_split,
         "explain": k_explain, "unloop": k_unloop, "reloop": k_reloop, "docstring": k_docstring, "keywords": k_keywords}


def build_kw_table():
    """call position -> parameter names of the resolved callee (computed with the engine's resolver on the clean tree
    without normalisation, only to produce correct keyword names)"""
    os.environ["HSA_NO_NORMALIZE"] = "1"
    os.environ["HSA_NO_CANON"] = "1"
    from hsa.repo import Repo, FunctionInfo, ClassInfo
    r = Repo(ROOT)
    tab = {}
    for m in r.modules.values():
        for node in ast.walk(m.tree):
            if not isinstance(node, ast.Call):
                continue
            fi = r.enclosing_function(node)
            try:
                tgt = r.resolve_name_expr(node.func, m, fi)
            except Exception:
                tgt = None
            skip = 0
            if isinstance(tgt, ClassInfo):
                tgt, skip = tgt.lookup("__init__"), 1
            if not isinstance(tgt, FunctionInfo):
                continue
            a = tgt.node.args
            if a.vararg or a.posonlyargs:
                continue
            if tgt.cls is not None and skip == 0 and "staticmethod" not in [ast.unparse(d) for d in tgt.node.decorator_list]:
                skip = 1
            tab["%s:%d:%d" % (m.name, node.lineno, node.col_offset)] = [x.arg for x in a.args][skip:]
    json.dump(tab, open("/tmp/refuzz_kw.json", "w"))
    del os.environ["HSA_NO_NORMALIZE"], os.environ["HSA_NO_CANON"]
    return len(tab)


# ------------------------------------------------------------------------------------------------ driver

def functions_of(tree):
    out = []
    for n in tree.body:
        if isinstance(n, (ast.FunctionDef, ast.AsyncFunctionDef)):
            out.append((n.name, n))
        elif isinstance(n, ast.ClassDef):
            for m in n.body:
                if isinstance(m, (ast.FunctionDef, ast.AsyncFunctionDef)):
                    out.append((n.name + "." + m.name, m))
    return out


def make_variant(relpath, modname, qual, kind):
    src_ = open(os.path.join(ROOT, relpath)).read()
    tree = ast.parse(src_)
    for q, fn in functions_of(tree):
        if q == qual:
            if kind in ("extract", "extract2"):
                n = _do_extract(fn, tree.body, 0 if kind == "extract" else 1)
            else:
                n = KINDS[kind](fn, modname) if kind == "keywords" else KINDS[kind](fn)
            if not n:
                return None
            ast.fix_missing_locations(tree)
            try:
                new = ast.unparse(tree)
                compile(new, relpath, "exec")
            except Exception as e:      # a transformation bug, not a finding
                return ("BROKEN", repr(e))
            return new
    return None


_BASE = None


def baseline():
    global _BASE
    if _BASE is None:
        from hsa import cli
        from hsa.repo import Repo
        repo = Repo(ROOT)
        _BASE = set()
        for i in list(range(1, 18)) + [19]:
            pid = "C%02d" % i
            mod = cli.load_prop(pid)
            obs, _s, errors = cli.run_rules(mod, repo, None)
            _BASE |= {(pid, o.rule, o.key) for o in obs if not o.ok}
    return _BASE


def run_variant(job):
    relpath, modname, qual, kind = job
    from hsa import cli, variants as V
    from hsa.repo import Repo
    new = make_variant(relpath, modname, qual, kind)
    if new is None:
        return None
    if isinstance(new, tuple):
        return {"job": job, "status": "broken-transformation", "why": new[1]}
    base = baseline()
    scratch = V.make_scratch(ROOT, {relpath: new})
    try:
        os.environ["HSA_REPO"] = str(scratch)
        try:
            repo = Repo(scratch)
        except Exception as e:
            return {"job": job, "status": "load-error", "why": repr(e)}
        fired, errs = [], []
        for i in list(range(1, 18)) + [19]:
            pid = "C%02d" % i
            mod = cli.load_prop(pid)
            try:
                obs, _s, errors = cli.run_rules(mod, repo, None)
            except Exception as e:
                errs.append((pid, repr(e)))
                continue
            fired += [(pid, o.rule, o.key) for o in obs if not o.ok and (pid, o.rule, o.key) not in base]
            errs += [(pid,) + tuple(map(str, e)) for e in errors]
        return {"job": job, "status": "ran", "fired": fired, "errors": errs}
    finally:
        V.drop_scratch(scratch)
        try:
            from hsa import cfg as _cfg
            _cfg._CFG_CACHE.clear()
        except Exception:
            pass


def main():
    ap = argparse.ArgumentParser()
    ap.add_argument("--kinds", default=",".join(KINDS))
    ap.add_argument("--modules", default="")
    ap.add_argument("--functions", default="")
    ap.add_argument("--jobs", type=int, default=16)
    ap.add_argument("--limit", type=int, default=0)
    ap.add_argument("--out", default="/tmp/refuzz.jsonl")
    a = ap.parse_args()
    kinds = [k for k in a.kinds.split(",") if k]
    if "keywords" in kinds:
        print("keyword table: %d calls" % build_kw_table())
    files = ["hephaestus.py"]
    for dp, _dn, fns in os.walk(os.path.join(ROOT, "src")):
        for f in fns:
            if f.endswith(".py") and "resources" not in dp:
                files.append(os.path.relpath(os.path.join(dp, f), ROOT))
    jobs = []
    for rel in sorted(files):
        modname = rel[:-3].replace("/", ".")
        if a.modules and not any(m in modname for m in a.modules.split(",")):
            continue
        tree = ast.parse(open(os.path.join(ROOT, rel)).read())
        for q, fn in functions_of(tree):
            if a.functions and a.functions not in q:
                continue
            for k in kinds:
                jobs.append((rel, modname, q, k))
    if a.limit:
        jobs = jobs[:a.limit]
    t0 = time.time()
    n_var = n_bad = 0
    with open(a.out, "w") as out:
        # a fresh pool per batch: the analysis caches of a worker grow with every variant it has loaded
        for b0 in range(0, len(jobs), 320):
            with ProcessPoolExecutor(max_workers=a.jobs) as ex:
                try:
                    results = list(ex.map(run_variant, jobs[b0:b0 + 320], chunksize=2))
                except Exception as e:
                    print("batch %d crashed: %r" % (b0, e), flush=True)
                    continue
            for r in results:
                if r is None:
                    continue
                n_var += 1
                if r["status"] != "ran" or r["fired"] or r["errors"]:
                    n_bad += 1
                    out.write(json.dumps(r) + "\n")
                    out.flush()
                    print("%-10s %s %s: %s %s" % (r["job"][3], r["job"][1], r["job"][2], r["status"],
                                                  (r.get("fired") or r.get("errors") or r.get("why"))[:3]
                                                  if r["status"] == "ran" else r.get("why")), flush=True)
            print("... %d/%d jobs, %d variants, %d not silent, %.0fs" % (min(b0 + 320, len(jobs)), len(jobs), n_var, n_bad,
                                                                         time.time() - t0), flush=True)
    print("variants: %d, not silent: %d, %.0fs" % (n_var, n_bad, time.time() - t0))


if __name__ == "__main__":
    main()
