#!/bin/bash
# usage: tools/try_patch.sh <patch.diff> [property ...]
# Applies a seeded change to /repo, runs the quick checks (all claimed properties by default), reverts /repo.
# Prints one line per property: <id> rc=<exit code> [violated rule/construct keys]
set -u
PATCH="$(readlink -f "$1")"; shift
PROPS="${*:-C01 C02 C03 C04 C05 C06 C07 C08 C09 C10 C11 C12 C13 C14 C15 C16 C17}"
cd /repo || exit 2
if [ -n "$(git status --porcelain)" ]; then echo "/repo is not clean"; exit 2; fi
trap 'git -C /repo checkout -- . ; git -C /repo clean -fdq' EXIT
git apply "$PATCH" || { echo "patch does not apply"; exit 2; }
cd /verif
OUT=$(mktemp -d)
for p in $PROPS; do ( ./check $p quick > $OUT/$p.log 2>&1; echo $? > $OUT/$p.rc ) & done
wait
for p in $PROPS; do
  rc=$(cat $OUT/$p.rc)
  if [ "$rc" != "0" ]; then
    echo "$p rc=$rc"
    grep -A1 "^VIOLATION\|^ANALYSIS-ERROR" $OUT/$p.log | grep -v "^--" | grep "^  rule\|^ANALYSIS" | cut -c1-220 | head -6
  fi
done
echo "clean: $(for p in $PROPS; do [ "$(cat $OUT/$p.rc)" = "0" ] && printf "%s " $p; done)"
rm -rf $OUT
