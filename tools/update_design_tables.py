#!/venv/bin/python
"""Regenerate the two generated tables of DESIGN.md in place:
   <!-- RULES-BEGIN --> ... <!-- RULES-END -->   rules as implemented (from hsa.props.*.rules())
   <!-- SEEDS-BEGIN --> ... <!-- SEEDS-END -->   kept seeded changes (from seeded/*/meta.json)"""
import glob, importlib, json, re, subprocess, sys
sys.path.insert(0, "/verif")
rules = ["| property | rule | what it decides | instance floor |", "|---|---|---|---|"]
for i in list(range(1, 18)) + [19]:
    m = importlib.import_module("hsa.props.c%02d" % i)
    for r in m.rules():
        rules.append("| C%02d | %s | %s | %d |" % (i, r.id, r.title, r.floor))
seeds = subprocess.run(["/venv/bin/python", "/verif/tools/seed_table.py"], capture_output=True, text=True).stdout.strip()
s = open("/verif/DESIGN.md").read()
for tag, body in (("RULES", "\n".join(rules)), ("SEEDS", seeds)):
    pat = re.compile(r"(<!-- %s-BEGIN -->\n).*?(\n<!-- %s-END -->)" % (tag, tag), re.S)
    assert pat.search(s), tag
    s = pat.sub(lambda m: m.group(1) + body + m.group(2), s)
open("/verif/DESIGN.md", "w").write(s)
print("rules: %d, seeds: %d" % (len(rules) - 2, seeds.count("\n") - 1))
