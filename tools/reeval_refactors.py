#!/venv/bin/python
"""Re-run every quick check against every kept refactoring (refactors/*/meta.json is refreshed; first_pass is kept).
usage: tools/reeval_refactors.py [refactor-id ...]"""
import glob, json, os, subprocess, sys, time
PROPS = ["C%02d" % i for i in list(range(1, 18)) + [19]]
def sh(c):
    r = subprocess.run(c, shell=True, capture_output=True, text=True)
    return r.returncode, r.stdout + r.stderr
only = set(sys.argv[1:])
assert sh("git -C /repo status --porcelain")[1].strip() == "", "/repo not clean"
bad = 0
for mp in sorted(glob.glob("/verif/refactors/*/meta.json")):
    m = json.load(open(mp))
    if only and m["refactor"] not in only:
        continue
    patch = os.path.join(os.path.dirname(mp), "patch.diff")
    verdicts = {}
    try:
        rc, o = sh("git -C /repo apply %s" % patch)
        assert rc == 0, o
        procs = {p: subprocess.Popen("./check %s quick" % p, shell=True, cwd="/verif", stdout=subprocess.PIPE,
                                     stderr=subprocess.STDOUT, text=True) for p in PROPS}
        for p, pr in procs.items():
            o, _ = pr.communicate()
            keys, lines = [], o.splitlines()
            for i, l in enumerate(lines):
                if l.startswith("VIOLATION") and i + 1 < len(lines):
                    keys.append(" ".join(lines[i + 1].split())[:200])
                if l.startswith("ANALYSIS-ERROR"):
                    keys.append(l[:200])
            verdicts[p] = {"rc": pr.returncode, "reports": keys[:8]}
    finally:
        sh("git -C /repo checkout -- . && git -C /repo clean -fdq")
    m["checks"] = {p: v for p, v in verdicts.items() if v["rc"] != 0}
    m["violation_in"] = sorted(p for p, v in verdicts.items() if v["rc"] == 1)
    m["analysis_error_in"] = sorted(p for p, v in verdicts.items() if v["rc"] == 2)
    m["evaluated_at"] = time.strftime("%Y-%m-%dT%H:%M:%SZ", time.gmtime())
    m["verif_commit"] = sh("git -C /verif rev-parse --short HEAD")[1].strip()
    json.dump(m, open(mp, "w"), indent=1)
    if m["violation_in"] or m["analysis_error_in"]:
        bad += 1
        print(m["refactor"], "violation_in", m["violation_in"], "exit2", m["analysis_error_in"], flush=True)
        for p in m["violation_in"] + m["analysis_error_in"]:
            for k in verdicts[p]["reports"][:3]:
                print("     %s: %s" % (p, k[:170]))
print("not silent: %d" % bad)
