#!/venv/bin/python
"""Write the prompts for one round of seeding sub-agents.

usage: tools/gen_seed_prompts.py <base dir, e.g. /tmp/sd> [property ...]

Each sub-agent gets ONLY: the text of one property (from properties.jsonl), the path of its own scratch worktree
<base>/cNN (created here with `git -C /repo worktree add --detach`), an output directory <base>/out_cNN, and one line per
earlier kept change for that property ("what it needs to manifest" + file) so that it picks a different mechanism.
Nothing of /verif's checks is shown.
"""
import glob
import json
import os
import subprocess
import sys

args = [a for a in sys.argv[1:] if not a.startswith("--")]
STYLE = "refactor-bug" if "--refactor-bug" in sys.argv else ("far" if "--far" in sys.argv else
                                                              ("coop" if "--coop" in sys.argv else "plain"))
base = args[0]
only = set(args[1:])
FRESH = "--fresh" in sys.argv      # no list of earlier mechanisms: the distribution an outside evaluator would draw from
ALL = "--all" in sys.argv          # also the properties that are not claimed
props = {}
for l in open("/verif/properties.jsonl"):
    d = json.loads(l)
    props[d["id"]] = d
claimed = [c["property_id"] for c in json.load(open("/verif/MANIFEST.json"))["checks"]]
if ALL:
    claimed = sorted(set(claimed) | set(props))
os.makedirs(base, exist_ok=True)

T = """You are helping to evaluate a verification effort by playing the role of a developer who introduces a subtle regression.

Repository: hephaestus (a Python program generator / typed IR / mutation framework that emits Java, Kotlin, Groovy and Scala programs to test compilers' type checkers). You have your OWN scratch git worktree of it at {wt} . Work ONLY inside {wt} and write your deliverables and ALL scratch files to {out} (nowhere else under /tmp). Do not read or touch /verif or /repo (off limits). No network. Do NOT use `git stash` (the stash is shared with other people's worktrees); use `git -C {wt} diff > file`, `git -C {wt} checkout -- .` and `git -C {wt} apply file` instead.

How to run things: use /venv/bin/python, always with the worktree first on the path:
  cd {wt} && PYTHONPATH={wt} /venv/bin/python -m pytest -q -p no:cacheprovider      (161 tests, ~2 s, must still pass)
  cd {wt} && PYTHONPATH={wt} /venv/bin/python your_demo.py
Check once that `import src; src.__file__` points into {wt}. hephaestus.py and src/args.py parse sys.argv at import time (set sys.argv before importing them). The generator works as a library: `from src.generators.generator import Generator; from src import utils as ut; ut.random.r.seed(n); ut.random.reset_word_pool(); p = Generator(language="kotlin").generate()` (1 s to tens of seconds per program; generation is not fully reproducible across processes even with PYTHONHASHSEED=0, so prefer small hand-built IR inputs for the demonstration and keep demos under ~60 s; other people share this machine, so do not run long scans over many generated programs). Do not rely on a compiler being installed.

The property that the system is supposed to satisfy:

  {pid} - {title}
  {statement}
  (quantified over: {quant})
  Code areas involved: {files}

Your task: produce TWO DIFFERENT, INDEPENDENT source changes ({style_text}), such that for EACH change:
  1. the code still imports and the existing test suite (161 tests) still passes unchanged;
  2. the change BREAKS the property above (a real behavioural violation, not a crash on every run);
  3. the violation needs something specific to manifest (a particular input shape, an unusual configuration, a multi-step sequence, a rare random choice, two cooperating sites) - ordinary use would NOT expose it at once;
  4. you provide a demonstration: a self-contained Python script that exits non-zero / prints FAIL with your change applied and exits 0 / prints PASS on the unmodified worktree, deterministically (run it several times on the clean tree), exercising the real code of the repository.
{earlier_block}
Deliverables, for i in 1, 2:
  {out}/change{{i}}/patch.diff   - `git -C {wt} diff` for that change alone
  {out}/change{{i}}/demo.py      - the demonstration (repository root from env var HSA_REPO, default {wt}; insert it at sys.path[0])
  {out}/change{{i}}/notes.md     - which clause breaks, what it needs to manifest (one sentence first), the commands you ran with their output
Leave the worktree clean when you are done. Verify everything yourself: apply each patch to the clean worktree, run the tests, run the demo (must fail), revert, run the demo again (must pass).
In your final answer give ONLY two lines per change: (a) file/function touched, (b) one sentence on what it needs in order to manifest.
"""

for pid in claimed:
    if only and pid not in only:
        continue
    d = props[pid]
    n = pid[1:].lower()
    wt, out = "%s/c%s" % (base, n), "%s/out_c%s" % (base, n)
    earlier = []
    for mp in ([] if FRESH else sorted(glob.glob("/verif/seeded/%s-*/meta.json" % pid))):
        m = json.load(open(mp))
        needs = " ".join(m.get("needs", "").replace("*", "").split())
        for pre in ("Needs, in one sentence:", "Needs to manifest:", "What it needs to manifest:", "Needs, to manifest:"):
            if needs.startswith(pre):
                needs = needs[len(pre):].strip()
        files = sorted({l.split(" b/")[1].strip() for l in open(os.path.join(os.path.dirname(mp), "patch.diff"))
                        if l.startswith("diff --git")})
        earlier.append("  - %s (%s)" % (needs[:260], ", ".join(files)))
    if not os.path.isdir(wt):
        subprocess.check_call(["git", "-C", "/repo", "worktree", "add", "-q", "--detach", wt])
    os.makedirs(out, exist_ok=True)
    style_text = ("each a small, realistic edit a developer could plausibly make: a refactoring slip, an 'optimisation', a "
                  "wrong condition, a forgotten case, two cooperating edits that each look fine alone, ...")
    if STYLE == "refactor-bug":
        style_text = ("each one a realistic CLEAN-UP REFACTORING of 10-50 changed lines in the central code of the property - "
                      "extract a helper function or method, inline a helper, introduce explaining variables, restructure "
                      "control flow with early returns / merged conditions, turn loops into comprehensions or the reverse, "
                      "switch call sites to keyword arguments, reorder statements - that looks purely cosmetic in review but "
                      "in which ONE detail of the behaviour silently changes (a condition slightly different in the "
                      "extracted helper, a statement that ends up outside / inside a branch, an argument lost or swapped, a "
                      "comprehension that filters differently from the loop, an evaluation moved before / after a mutation, "
                      "a copy that is no longer made, ...); most of the diff must be genuinely behaviour-preserving")
    if STYLE == "coop":
        style_text = ("each consisting of TWO COOPERATING EDITS at two different sites - different functions, preferably "
                      "different files or classes (a producer and a consumer, a writer and a reader of the same field, a "
                      "caller and a callee, a default and the code relying on it, a save and a restore) - such that EACH "
                      "edit ALONE leaves the property intact (it is behaviour-preserving, or harmless, when applied without "
                      "the other: show this in your notes by running the demonstration with only one of the two edits) and "
                      "only BOTH TOGETHER break it; each edit should look like a reasonable small change in review")
    if STYLE == "far":
        style_text = ("each a small, realistic edit a developer could plausibly make, located AWAY from the most obvious "
                      "function of the property: in a callee several calls down, a shared helper or utility module, a base "
                      "class or a sibling subclass, a builtin-type table of one language, a default argument, a constant, a "
                      "dunder method (__eq__/__hash__/__str__), a constructor, or a different module that the property's "
                      "code depends on - so that someone reviewing only the functions named above would not see it")
    open("%s/prompt_c%s.txt" % (base, n), "w").write(T.format(style_text=style_text, 
        wt=wt, out=out, pid=pid, title=d["title"], statement=d["statement"], quant=d["quantifier"]["text"],
        files=", ".join(d["anchors"]["files"]),
        earlier_block="" if FRESH else ("Earlier attempts by other people already covered the following mechanisms for this property - "
                                        "choose DIFFERENT functions / mechanisms / clauses of the property than these:\n%s\n"
                                        % ("\n".join(earlier) or "  (none)"))))
    print(pid, wt, len(earlier), "earlier mechanisms")
