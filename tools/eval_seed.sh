#!/bin/bash
# usage: tools/eval_seed.sh <out_dir_of_agent> <property> <n>
# Confirms a seeded change in a scratch worktree (tests pass with it; demo fails with it and passes without it),
# then runs all quick checks against it via try_patch.sh.  Prints a summary; does not copy anything.
set -u
OUT="$1"; PROP="$2"; N="$3"
CH="$OUT/change$N"
[ -f "$CH/patch.diff" ] || { echo "no patch in $CH"; exit 2; }
WT=/tmp/sa/verify_$$
git -C /repo worktree add --detach $WT HEAD -q || exit 2
trap 'git -C /repo worktree remove --force '$WT' >/dev/null 2>&1' EXIT
cd $WT
echo "== demo on the clean tree"
HSA_REPO=$WT PYTHONPATH=$WT PYTHONHASHSEED=0 timeout 900 /venv/bin/python $CH/demo.py > /tmp/sa/demo_clean.log 2>&1; echo "rc=$?"; tail -2 /tmp/sa/demo_clean.log | cut -c1-200
git apply $CH/patch.diff || { echo "patch does not apply to HEAD"; exit 2; }
echo "== files touched: $(git diff --stat | tail -1)"
echo "== tests with the change"
PYTHONPATH=$WT /venv/bin/python -m pytest -q -p no:cacheprovider 2>&1 | tail -1
echo "== demo with the change"
HSA_REPO=$WT PYTHONPATH=$WT PYTHONHASHSEED=0 timeout 900 /venv/bin/python $CH/demo.py > /tmp/sa/demo_patched.log 2>&1; echo "rc=$?"; tail -2 /tmp/sa/demo_patched.log | cut -c1-200
cd /verif
echo "== checks against the change"
/verif/tools/try_patch.sh $CH/patch.diff
