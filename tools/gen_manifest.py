#!/venv/bin/python
"""Regenerate /verif/MANIFEST.json from the implemented property modules."""
import importlib
import json
import sys
from pathlib import Path

VERIF = Path(__file__).resolve().parent.parent
sys.path.insert(0, str(VERIF))

NA = {
    "C18": ("exception-freedom and termination over all seeds are run-time quantities with no sound static bound in reach: the "
            "generator's recursion is only probabilistically bounded (receivers, array elements and the fallback of gen_variable "
            "recurse through generate_expr without a depth increment, so the natural structural clause - every call-graph cycle "
            "through generate_expr passes an increment - is false on the unchanged tree), and emptiness of random.choice pools "
            "and None-dereferences need value reasoning (a literal-None lint gave one true and two false reports out of three). "
            "Reconsidered twice (DESIGN.md sections 5 and 14); the four C18 changes written by a sub-agent are kept under "
            "seeded/C18-* for the record, one of them is reported by C01-R11 because it edits a condition C01 decides"),
}
PENDING = "checker for this property is designed (DESIGN.md section 2) but not yet implemented in this commit; not claimed until it is"


def main():
    props = [json.loads(l) for l in (VERIF / "properties.jsonl").read_text().splitlines() if l.strip()]
    checks, na, served = [], [], []
    for p in props:
        pid = p["id"]
        if pid in NA:
            na.append({"property_id": pid, "reason": NA[pid]})
            continue
        try:
            mod = importlib.import_module("hsa.props." + pid.lower())
        except ModuleNotFoundError:
            na.append({"property_id": pid, "reason": PENDING})
            continue
        served.append(pid)
        checks.append({
            "property_id": pid,
            "quick_cmd": "./check %s quick" % pid,
            "thorough_cmd": "./check %s thorough" % pid,
            "evidence_file": "evidence/%s.json" % pid,
            "replay_cmd_template": "./check %s --explain {path}" % pid,
            "engine": "hsa",
            "level_claimed": {
                "category": "other",
                "text": ("Static analysis of /repo's current source (ast, statement CFG, def-use, guards, "
                         "effect summaries, call resolution): structural necessary conditions of the property, "
                         "each an explicit obligation list evaluated on every run. " + mod.DECIDES +
                         " Not decided: " + mod.NOT_DECIDED),
                "design_ref": getattr(mod, "DESIGN_REF", "DESIGN.md section 2, " + pid),
            },
            "level_note": ("Trusted base: CPython ast semantics; alias/MRO/name-based call resolution; the rule tables "
                           "frozen in hsa/props/%s.py (cross-checked against the source, instance floors, fail-closed "
                           "ANALYSIS-ERROR exit 2 on vanished anchors). The thorough tier adds the seeded variant matrix "
                           "(each variant must trip its rule, twins must stay silent)." % pid.lower()),
            "technique": getattr(mod, "TECHNIQUE", "custom AST/CFG/def-use static checker (no execution of /repo)"),
        })
    man = {
        "version": 1,
        "setup_cmd": "/venv/bin/python -B -m hsa.selftest",
        "hooks": {
            "guard": "HEPHAESTUS_COMPILER_PROJECT_HEPHAESTUS_VERIF",
            "enable": "none needed: the checks read the source of /repo and never run it; no hook commits exist",
            "baseline_off_cmd": "cd /repo && /venv/bin/python -m pytest -ra -q -p no:cacheprovider --timeout=900 --continue-on-collection-errors",
            "source_commits": [],
            "add_only": True,
        },
        "engines": [{
            "name": "hsa",
            "path": "hsa/",
            "serves_properties": served,
            "kind_free_text": "pure-Python static analysis over /repo's ast: symbol tables, call resolution, statement CFG with dominators, reaching definitions / provenance, guards, effect summaries, regex ASTs, finite abstract interpretation; variant matrix on scratch copies",
        }],
        "checks": checks,
        "not_applicable": na,
        "notes": "All checks are static (family: static analysis). Exit 0 ok / 1 VIOLATION / 2 ANALYSIS-ERROR. known_findings.json lists recorded defects.",
    }
    (VERIF / "MANIFEST.json").write_text(json.dumps(man, indent=1) + "\n")
    print("MANIFEST: %d checks, %d not applicable" % (len(checks), len(na)))


if __name__ == "__main__":
    main()
