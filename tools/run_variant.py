#!/venv/bin/python
"""usage: tools/run_variant.py <property> <substring of the variant name> [module function]
Applies one thorough-tier variant to a scratch copy, runs the property's rules and prints the violated obligations
(and optionally the normalised form of a function)."""
import ast, os, sys
sys.path.insert(0, "/verif")
from hsa import cli, variants as V
from hsa.repo import Repo
pid, sub = sys.argv[1], sys.argv[2]
mod = cli.load_prop(pid)
vs = cli._all_variants(mod)
idx = [i for i, v in enumerate(vs) if sub in v.name]
assert idx, [v.name for v in vs]
r = cli._variant_worker((pid, os.environ.get("HSA_REPO", "/repo"), idx[0]))
print({k: v for k, v in r.items() if k != "keys"})
for k in r.get("keys", []):
    print("  ", k)
